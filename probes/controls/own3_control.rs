// Positive control for OWN3 / UNS: every construct the zero-count scans look for, once.
// Compiled through the fact extractor on every run; the scanners must find all of them.
#![allow(dead_code, unused)]
use std::mem::ManuallyDrop;
use std::rc::{Rc, Weak};
use std::sync::Arc;

pub fn leaks(n: gdsl::digraph::Node<u32, (), ()>) {
    let a = Rc::new(1u8);
    let w: Weak<u8> = Rc::downgrade(&a);
    std::mem::forget(n.clone());
    let _m = ManuallyDrop::new(n.clone());
    let _b: &'static mut u8 = Box::leak(Box::new(1u8));
    let raw = Rc::into_raw(a.clone());
    let _back = unsafe { Rc::from_raw(raw) };
    let s = Arc::new(2u8);
    let sraw = Arc::into_raw(s.clone());
    unsafe { Arc::increment_strong_count(sraw) };
    unsafe { Arc::decrement_strong_count(sraw) };
    let _sback = unsafe { Arc::from_raw(sraw) };
    let wraw = w.into_raw();
    let _wback = unsafe { Weak::from_raw(wraw) };
}

pub unsafe fn unsafe_fn() {}
