#!/bin/bash
# Build the fact extractor and warm the analysis target dir (offline; files on disk only).
set -euo pipefail
HERE=$(cd "$(dirname "$0")" && pwd)
export CARGO_NET_OFFLINE=true
mkdir -p "$HERE/.work"
(cd "$HERE/engine/driver" && cargo +nightly build --release --offline 2>&1 | tail -3)
"$HERE/engine/facts.sh" /repo "$HERE/.work/setup-facts.json"
python3 - <<PY
import json
d=json.load(open("$HERE/.work/setup-facts.json"))
print("setup ok: %d bodies, %d types" % (len(d["bodies"]), len(d["types"])))
PY
rm -f "$HERE/.work/setup-facts.json"
