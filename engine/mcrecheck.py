#!/usr/bin/env python3
"""mcrecheck.py <campaign.jsonl>: re-run every check on the test-survivors that no check reported, print what fires now"""
import os, sys, json, subprocess, re
HERE = os.path.dirname(os.path.abspath(__file__)); VERIF = os.path.dirname(HERE)
props = [json.loads(l)['id'] for l in open(os.path.join(VERIF, 'properties.jsonl'))]
seen = set()
for l in open(sys.argv[1]):
    d = json.loads(l)
    if d['status'] != 'survived-tests' or d.get('flagged'):
        continue
    key = (d['file'], d['line'], d['new'])
    if key in seen:
        continue
    seen.add(key)
    facts = os.path.join(VERIF, '.work', 'mcr.json')
    if os.path.exists(facts):
        os.remove(facts)
    subprocess.run([sys.executable, os.path.join(HERE, 'mcfacts.py'), facts, d['file'], str(d['line']), d['new']], stdout=subprocess.PIPE)
    fired = {}
    for p in props:
        r = subprocess.run([os.path.join(VERIF, 'check'), p, '--facts', facts, '--no-evidence'], stdout=subprocess.PIPE, stderr=subprocess.STDOUT, text=True)
        if r.returncode != 0:
            fired[p] = sorted(set(re.findall(r'^\s+rule=(\S+)', r.stdout, re.M)))
    print('%-8s %s:%d %s | %s => %s | %s' % ('FLAGGED' if fired else 'UNFLAGGED', d['file'], d['line'], d['op'], d['old'][:60], d['new'][:60], json.dumps(fired)), flush=True)
