#!/usr/bin/env python3
"""Counts rule instances per property on the given facts and writes floors.json.
Run by hand after the instances were confirmed by reading (never at check time)."""
import sys, os, json, collections
HERE = os.path.dirname(os.path.abspath(__file__))
sys.path.insert(0, HERE)
from gdslint.ctx import Ctx
from gdslint import props
# rules whose instance count is incidental (number of call sites): floor at 60% of the counted number
SITE_RULES = {'G2', 'G3', 'LK1', 'LK2', 'ENC-b', 'ENC-c', 'ENC-d', 'SYM', 'IT1', 'FLAV', 'OWN3-SCAN', 'LK3-SCAN', 'SIB', 'SIB-SEM', 'SIB-IMPL', 'DE2', 'OWN2', 'MAP'}
ctx = Ctx(sys.argv[1])
out = {}
for pid, spec in props.PROPS.items():
    c = collections.Counter()
    okc = collections.Counter()
    for name, fn in spec['rules']:
        for o in fn(ctx):
            c[o['rule']] += 1
            okc[o['rule']] += 1 if o['ok'] else 0
    # a rule that only ever reports failures (LK3: one obligation per offending site) has no anchor count to defend
    # exact for the kernel census (ROLES); half of the counted number for everything else: a legitimate refactoring can merge call
    # sites or route one entry point through another (fewer instances), while a vanished anchor or a mis-spelt role drops a rule to 0
    out[pid] = {r: (n if r == 'ROLES' else max(1, int(n * 0.5))) for r, n in sorted(c.items()) if r != 'FLOOR' and okc[r] > 0}
json.dump(out, open(os.path.join(HERE, 'gdslint', 'floors.json'), 'w'), indent=1, sort_keys=True)
print({p: sum(v.values()) for p, v in out.items()})
