#!/usr/bin/env python3
"""Counts rule instances per property on the given facts and writes floors.json.
Run by hand after the instances were confirmed by reading (never at check time)."""
import sys, os, json, collections
HERE = os.path.dirname(os.path.abspath(__file__))
sys.path.insert(0, HERE)
from gdslint.ctx import Ctx
from gdslint import props
# rules whose instance count is incidental (number of call sites): floor at 60% of the counted number
SITE_RULES = {'G2', 'G3', 'LK1', 'LK2', 'ENC-b', 'ENC-c', 'ENC-d', 'SYM', 'IT1', 'FLAV', 'OWN3-SCAN', 'LK3-SCAN', 'SIB', 'SIB-SEM', 'SIB-IMPL', 'DE2', 'OWN2', 'MAP'}
ctx = Ctx(sys.argv[1])
out = {}
for pid, spec in props.PROPS.items():
    c = collections.Counter()
    okc = collections.Counter()
    for name, fn in spec['rules']:
        for o in fn(ctx):
            c[o['rule']] += 1
            okc[o['rule']] += 1 if o['ok'] else 0
    # a rule that only ever reports failures (LK3: one obligation per offending site) has no anchor count to defend
    out[pid] = {r: (n if r not in SITE_RULES else int(n * 0.6)) for r, n in sorted(c.items()) if r != 'FLOOR' and okc[r] > 0}
json.dump(out, open(os.path.join(HERE, 'gdslint', 'floors.json'), 'w'), indent=1, sort_keys=True)
print({p: sum(v.values()) for p, v in out.items()})
