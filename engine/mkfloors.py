#!/usr/bin/env python3
"""Counts rule instances per property on the given facts and writes floors.json.
Run by hand after the instances were confirmed by reading (never at check time)."""
import sys, os, json, collections
HERE = os.path.dirname(os.path.abspath(__file__))
sys.path.insert(0, HERE)
from gdslint.ctx import Ctx
from gdslint import props
# rules whose instance count is incidental (number of call sites): floor at 60% of the counted number
SITE_RULES = {'G2', 'G3', 'LK1', 'ENC-b', 'ENC-c', 'ENC-d', 'SYM', 'IT1', 'FLAV', 'OWN3-SCAN', 'LK3-SCAN', 'SIB', 'SIB-IMPL', 'DE2', 'OWN2'}
ctx = Ctx(sys.argv[1])
out = {}
for pid, spec in props.PROPS.items():
    c = collections.Counter()
    for name, fn in spec['rules']:
        for o in fn(ctx):
            c[o['rule']] += 1
    out[pid] = {r: (n if r not in SITE_RULES else int(n * 0.6)) for r, n in sorted(c.items()) if r != 'FLOOR'}
json.dump(out, open(os.path.join(HERE, 'gdslint', 'floors.json'), 'w'), indent=1, sort_keys=True)
print({p: sum(v.values()) for p, v in out.items()})
