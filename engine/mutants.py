#!/usr/bin/env python3
"""Checker self-test: applies each mutant (a diff against /repo's current tree) to a scratch copy,
re-extracts facts and requires the named rule of the named property to fire (and the mutant to compile).

  mutants.py [--jobs N] [--only REGEX] [--list]

Scratch copies live under a mkdtemp outside /repo and /verif and are removed afterwards.
The matrix is evidence only; it never decides a property's exit code.
"""
import os, sys, re, json, shutil, subprocess, tempfile, argparse, time
from concurrent.futures import ThreadPoolExecutor

HERE = os.path.dirname(os.path.abspath(__file__))
VERIF = os.path.dirname(HERE)
MUT = os.path.join(VERIF, 'mutants')
REPO = os.environ.get('GDSL_REPO', '/repo')


def load_index():
    return json.load(open(os.path.join(MUT, 'index.json')))


def run_one(name, spec, wdir):
    repo = os.path.join(wdir, 'repo')
    shutil.rmtree(repo, ignore_errors=True)
    subprocess.run(['rsync', '-a', '--exclude', 'target', '--exclude', '.git', REPO + '/', repo + '/'], check=True)
    diff = os.path.join(MUT, spec.get('file', name + '.diff'))
    r = subprocess.run(['git', 'apply', '--whitespace=nowarn', diff], cwd=repo, stdout=subprocess.PIPE, stderr=subprocess.STDOUT, text=True)
    if r.returncode != 0:
        return {'name': name, 'status': 'anchor-missing', 'detail': r.stdout.strip()[:200]}
    env = dict(os.environ)
    env['GDSL_WORK'] = os.path.join(wdir, 'work')
    if spec.get('benign'):
        props = [json.loads(l)['id'] for l in open(os.path.join(VERIF, 'properties.jsonl'))]
        alarms = []
        for prop in props:
            c = subprocess.run([os.path.join(VERIF, 'check'), prop, '--repo', repo, '--no-evidence'], stdout=subprocess.PIPE, stderr=subprocess.STDOUT, text=True, env=env)
            if c.returncode == 2:
                return {'name': name, 'status': 'does-not-compile', 'detail': c.stdout[-300:]}
            if c.returncode != 0:
                alarms.append('%s:%s' % (prop, ','.join(sorted(set(re.findall(r'^\s+rule=(\S+)', c.stdout, re.M))))))
        if alarms:
            return {'name': name, 'status': 'SURVIVED', 'detail': 'FALSE ALARM on a behaviour-preserving edit: ' + ' '.join(alarms)}
        return {'name': name, 'status': 'silent', 'expect': []}
    res = {'name': name, 'status': 'killed', 'expect': spec['expect'], 'fired': []}
    for prop, rule in spec['expect']:
        c = subprocess.run([os.path.join(VERIF, 'check'), prop, '--repo', repo, '--no-evidence'], stdout=subprocess.PIPE, stderr=subprocess.STDOUT, text=True, env=env)
        if c.returncode == 2:
            return {'name': name, 'status': 'does-not-compile', 'detail': c.stdout[-300:]}
        rules = re.findall(r'^\s+rule=(\S+)', c.stdout, re.M)
        fired = sorted(set(rules))
        res['fired'].append({'property': prop, 'rules': fired, 'exit': c.returncode})
        if c.returncode != 1 or (rule and not any(f == rule or f.startswith(rule) for f in fired)):
            res['status'] = 'SURVIVED'
            res['detail'] = 'expected %s/%s, got exit %d rules %s' % (prop, rule, c.returncode, fired)
    return res


def run_matrix(sel, benign, pid, jobs=8):
    """used by the thorough tier of ./check: mutants in `sel` must make property `pid` fire; benign edits must leave it silent"""
    import queue
    t0 = time.time()
    base = tempfile.mkdtemp(prefix='gdslmut-')
    out = {'killed': [], 'survived': [], 'not_applicable': [], 'benign_silent': [], 'benign_false_alarm': []}
    try:
        items = [(n, s, False) for n, s in sorted(sel.items())] + [(n, dict(s, expect=[[pid, '']]), True) for n, s in sorted(benign.items())]
        jobs = max(1, min(jobs, len(items) or 1))
        q = queue.Queue()
        for i in range(jobs):
            w = os.path.join(base, 'w%d' % i)
            os.makedirs(os.path.join(w, 'work'))
            src_t = os.path.join(os.environ.get('GDSL_WORK', os.path.join(VERIF, '.work')), 'target')
            if os.path.isdir(src_t):
                subprocess.run(['cp', '-r', src_t, os.path.join(w, 'work', 'target')], check=False)
            q.put(w)

        def go(it):
            n, s, is_benign = it
            w = q.get()
            try:
                s2 = dict(s)
                s2.pop('benign', None)
                return n, is_benign, run_one(n, s2, w)
            finally:
                q.put(w)
        with ThreadPoolExecutor(max_workers=jobs) as ex:
            for n, is_benign, r in ex.map(go, items):
                if r['status'] in ('anchor-missing', 'does-not-compile'):
                    out['not_applicable'].append({'name': n, 'why': r['status']})
                elif is_benign:
                    (out['benign_false_alarm'] if r['status'] == 'killed' else out['benign_silent']).append(n)
                elif r['status'] == 'killed':
                    out['killed'].append({'name': n, 'rules': r['fired'][0]['rules'] if r.get('fired') else []})
                else:
                    out['survived'].append({'name': n, 'detail': r.get('detail', '')})
    finally:
        shutil.rmtree(base, ignore_errors=True)
    out['wall_s'] = round(time.time() - t0, 1)
    return out


def main():
    ap = argparse.ArgumentParser()
    ap.add_argument('--jobs', type=int, default=8)
    ap.add_argument('--only')
    ap.add_argument('--list', action='store_true')
    ap.add_argument('--json')
    ap.add_argument('--seeds', action='store_true', help='run the kept seeded changes (seeded/*/patch.diff) instead: each must make the check of its own property fire')
    a = ap.parse_args()
    idx = load_index()
    if a.seeds:
        idx = {}
        sd = os.path.join(VERIF, 'seeded')
        for n in sorted(os.listdir(sd)):
            mp = os.path.join(sd, n, 'meta.json')
            if os.path.exists(mp):
                idx[n] = {'file': os.path.join(sd, n, 'patch.diff'), 'expect': [[json.load(open(mp))['property'], '']], 'kind': 'seeded change'}
    names = [n for n in sorted(idx) if not a.only or re.search(a.only, n)]
    if a.list:
        for n in names:
            print(n, idx[n]['expect'])
        return 0
    t0 = time.time()
    base = tempfile.mkdtemp(prefix='gdslmut-')
    results = []
    try:
        jobs = max(1, min(a.jobs, len(names)))
        wdirs = []
        for i in range(jobs):
            w = os.path.join(base, 'w%d' % i)
            os.makedirs(os.path.join(w, 'work'))
            src_t = os.path.join(os.environ.get('GDSL_WORK', os.path.join(VERIF, '.work')), 'target')
            if os.path.isdir(src_t):
                subprocess.run(['cp', '-r', src_t, os.path.join(w, 'work', 'target')], check=False)
            wdirs.append(w)
        import queue
        q = queue.Queue()
        for w in wdirs:
            q.put(w)

        def go(n):
            w = q.get()
            try:
                return run_one(n, idx[n], w)
            finally:
                q.put(w)
        with ThreadPoolExecutor(max_workers=jobs) as ex:
            for r in ex.map(go, names):
                results.append(r)
                print('%-16s %s %s' % (r['status'], r['name'], r.get('detail', '')))
    finally:
        shutil.rmtree(base, ignore_errors=True)
    killed = sum(1 for r in results if r['status'] in ('killed', 'silent'))
    print('mutants: %d total, %d killed, %d survived, %d not applicable (%.0fs)' % (
        len(results), killed, sum(1 for r in results if r['status'] == 'SURVIVED'), sum(1 for r in results if r['status'] in ('anchor-missing', 'does-not-compile')), time.time() - t0))
    if a.json:
        json.dump({'results': results, 'wall_s': time.time() - t0}, open(a.json, 'w'), indent=1)
    return 0 if all(r['status'] != 'SURVIVED' for r in results) else 1


if __name__ == '__main__':
    sys.exit(main())
