#!/usr/bin/env python3
"""mcreplay.py <campaign.jsonl> <out.jsonl> [--jobs N]: re-run all checks (current rules) on every test-survivor of an earlier sweep
(the mutants are re-applied to scratch copies of /repo; cargo test is not repeated)."""
import os, sys, json, subprocess, re, tempfile, shutil, threading, queue, time
HERE = os.path.dirname(os.path.abspath(__file__)); VERIF = os.path.dirname(HERE)
props = [json.loads(l)['id'] for l in open(os.path.join(VERIF, 'properties.jsonl'))]
src, out = sys.argv[1], sys.argv[2]
jobs = int(sys.argv[sys.argv.index('--jobs') + 1]) if '--jobs' in sys.argv else 8
rows = [json.loads(l) for l in open(src)]
todo = [d for d in rows if d['status'] == 'survived-tests']
done = set()
if os.path.exists(out):
    for l in open(out):
        d = json.loads(l); done.add((d['file'], d['line'], d['op'], d['new']))
q = queue.Queue()
for d in todo:
    if (d['file'], d['line'], d['op'], d['new']) not in done:
        q.put(d)
print('%d to replay' % q.qsize(), flush=True)
lock = threading.Lock()
fo = open(out, 'a')
base = tempfile.mkdtemp(prefix='gdslrp-')


def work(i):
    w = os.path.join(base, 'w%d' % i)
    os.makedirs(w)
    subprocess.run(['rsync', '-a', '--exclude', 'target', '--exclude', '.git', '/repo/', w + '/repo/'], check=True)
    env = dict(os.environ, GDSL_WORK=os.path.join(w, 'work'), CARGO_NET_OFFLINE='true')
    os.makedirs(env['GDSL_WORK'])
    while True:
        try:
            d = q.get_nowait()
        except queue.Empty:
            return
        p = os.path.join(w, 'repo', d['file'])
        orig = open(p).read()
        ls = orig.split('\n')
        try:
            if d['op'] == 'swap-stmts':
                a, b = d['line'] - 1, d['line2'] - 1
                ls[a], ls[b] = ls[b], ls[a]
            elif d['op'] == 'dup-stmt':
                ls[d['line'] - 1] = ls[d['line'] - 1] + '\n' + ls[d['line'] - 1]
            else:
                ind = ls[d['line'] - 1][:len(ls[d['line'] - 1]) - len(ls[d['line'] - 1].lstrip())]
                ls[d['line'] - 1] = ind + d['new']
            open(p, 'w').write('\n'.join(ls))
            facts = os.path.join(env['GDSL_WORK'], 'rp.json')
            if os.path.exists(facts):
                os.remove(facts)
            subprocess.run([os.path.join(HERE, 'facts.sh'), os.path.join(w, 'repo'), facts], env=env, stdout=subprocess.PIPE, stderr=subprocess.STDOUT)
            fired = {}
            if os.path.exists(facts):
                for pid in props:
                    r = subprocess.run([os.path.join(VERIF, 'check'), pid, '--facts', facts, '--repo', os.path.join(w, 'repo'), '--no-evidence'], stdout=subprocess.PIPE, stderr=subprocess.STDOUT, text=True, env=env)
                    if r.returncode != 0:
                        fired[pid] = sorted(set(re.findall(r'^\s+rule=(\S+)', r.stdout, re.M))) or ['exit%d' % r.returncode]
                status = 'ok'
            else:
                status = 'facts-failed'
            res = {k: d[k] for k in ('file', 'line', 'op', 'old', 'new') if k in d}
            if 'line2' in d:
                res['line2'] = d['line2']
            res.update({'replay': status, 'fired': fired, 'flagged': bool(fired), 'was_flagged': bool(d.get('flagged'))})
            with lock:
                fo.write(json.dumps(res) + '\n'); fo.flush()
        finally:
            open(p, 'w').write(orig)


ths = [threading.Thread(target=work, args=(i,)) for i in range(jobs)]
[t.start() for t in ths]
[t.join() for t in ths]
shutil.rmtree(base, ignore_errors=True)
