#!/usr/bin/env python3
"""mcrecheck2.py <campaign.jsonl> [flagged|unflagged]: re-run all checks on swap-stmts / dup-stmt test-survivors with the current rules"""
import os, sys, json, subprocess, re, tempfile, shutil
HERE = os.path.dirname(os.path.abspath(__file__)); VERIF = os.path.dirname(HERE)
props = [json.loads(l)['id'] for l in open(os.path.join(VERIF, 'properties.jsonl'))]
which = sys.argv[2] if len(sys.argv) > 2 else 'flagged'
seen = set()
for l in open(sys.argv[1]):
    d = json.loads(l)
    if d['status'] != 'survived-tests' or bool(d.get('flagged')) != (which == 'flagged'):
        continue
    key = (d['op'], d['old'])
    if key in seen:
        continue
    seen.add(key)
    tmp = tempfile.mkdtemp(prefix='gdslmr-')
    try:
        subprocess.run(['rsync', '-a', '--exclude', 'target', '--exclude', '.git', '/repo/', tmp + '/repo/'], check=True)
        p = os.path.join(tmp, 'repo', d['file'])
        ls = open(p).read().split('\n')
        if d['op'] == 'swap-stmts':
            i, j = d['line'] - 1, d['line2'] - 1
            ls[i], ls[j] = ls[j], ls[i]
        elif d['op'] == 'dup-stmt':
            ls[d['line'] - 1] = ls[d['line'] - 1] + '\n' + ls[d['line'] - 1]
        open(p, 'w').write('\n'.join(ls))
        facts = os.path.join(tmp, 'f.json')
        env = dict(os.environ, GDSL_WORK=os.path.join(tmp, 'work'))
        os.makedirs(env['GDSL_WORK'])
        subprocess.run([os.path.join(HERE, 'facts.sh'), os.path.join(tmp, 'repo'), facts], env=env, stdout=subprocess.PIPE, stderr=subprocess.STDOUT)
        fired = {}
        for pid in props:
            r = subprocess.run([os.path.join(VERIF, 'check'), pid, '--facts', facts, '--no-evidence'], stdout=subprocess.PIPE, stderr=subprocess.STDOUT, text=True, env=env)
            if r.returncode != 0:
                fired[pid] = sorted(set(re.findall(r'^\s+rule=(\S+)', r.stdout, re.M)))
        print('%-9s %s %s:%d | %s | %s' % ('FLAGGED' if fired else 'UNFLAGGED', d['op'][:4], d['file'].replace('src/', ''), d['line'], d['old'][:100], json.dumps(fired)[:160]), flush=True)
    finally:
        shutil.rmtree(tmp, ignore_errors=True)
