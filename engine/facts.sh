#!/bin/bash
# usage: facts.sh <repo dir> <out json> [extra cargo check args...]
# Extracts facts from the *current working tree* of <repo dir>.  Fails closed.
set -euo pipefail
REPO=$(realpath "$1"); OUT=$(realpath -m "$2"); shift 2
HERE=$(cd "$(dirname "$0")" && pwd)
DRV=$HERE/driver/target/release/gdsl-facts
WORK=${GDSL_WORK:-$HERE/../.work}
mkdir -p "$WORK"
TGT=${GDSL_TARGET:-$WORK/target}
export CARGO_NET_OFFLINE=true
if [ ! -x "$DRV" ] || [ "$HERE/driver/src/main.rs" -nt "$DRV" ]; then
  (cd "$HERE/driver" && cargo +nightly build --release --offline >"$WORK/driver-build.log" 2>&1) || { cat "$WORK/driver-build.log" >&2; exit 2; }
fi
SYSROOT=$(rustc +nightly --print sysroot)
rm -f "$OUT"
(
  flock 9
  # cargo's freshness cache would skip the wrapper: drop gdsl's own fingerprints
  rm -rf "$TGT"/debug/.fingerprint/gdsl-* 2>/dev/null || true
  cd "$REPO"
  LD_LIBRARY_PATH=$SYSROOT/lib \
  RUSTFLAGS="-Zmir-opt-level=0 -Awarnings -Zallow-features=" \
  RUSTC_WORKSPACE_WRAPPER=$DRV \
  GDSL_FACTS_OUT=$OUT \
  CARGO_TARGET_DIR=$TGT \
  cargo +nightly check --offline --lib "$@" >"$WORK/facts-cargo.log" 2>&1 || { echo "facts: cargo check failed" >&2; tail -40 "$WORK/facts-cargo.log" >&2; exit 2; }
  # the metadata of exactly this tree, for witnesses and probes (copied under the lock)
  RM=$(ls -t "$TGT"/debug/deps/libgdsl-*.rmeta 2>/dev/null | head -1)
  [ -n "$RM" ] && mkdir -p "${OUT%.json}.d" && cp "$RM" "${OUT%.json}.d/libgdsl.rmeta"
) 9>"$WORK/facts.lock"
[ -s "$OUT" ] || { echo "facts: no fact file produced" >&2; tail -20 "$WORK/facts-cargo.log" >&2; exit 2; }
