#!/usr/bin/env python3
"""benigneval.py <TAG> <dir with N.diff [N.md]> : registers behaviour-preserving patches from an independent agent as benign
mutants (mutants/benign_<TAG>_<N>.diff) and runs all 20 checks on each (scratch copies); prints the alarms."""
import os, sys, json, shutil, glob, importlib.util, tempfile, subprocess
HERE = os.path.dirname(os.path.abspath(__file__))
VERIF = os.path.dirname(HERE)
spec = importlib.util.spec_from_file_location('mutants', os.path.join(HERE, 'mutants.py'))
mu = importlib.util.module_from_spec(spec); spec.loader.exec_module(mu)
tag, src = sys.argv[1], os.path.abspath(sys.argv[2])
idx = mu.load_index()
names = []
for f in sorted(glob.glob(os.path.join(src, '*.diff'))):
    n = 'benign_%s_%s' % (tag, os.path.splitext(os.path.basename(f))[0])
    shutil.copy(f, os.path.join(VERIF, 'mutants', n + '.diff'))
    md = f[:-5] + '.md'
    idx[n] = {'expect': [], 'benign': True, 'kind': 'behaviour-preserving refactoring by an independent agent', 'external': True,
              'note': open(md).read().strip()[:600] if os.path.exists(md) else ''}
    names.append(n)
json.dump(idx, open(os.path.join(VERIF, 'mutants', 'index.json'), 'w'), indent=1, sort_keys=True)
r = subprocess.run([sys.executable, os.path.join(HERE, 'mutants.py'), '--jobs', '8', '--only', '^(' + '|'.join(names) + ')$'], stdout=subprocess.PIPE, text=True)
print(r.stdout)
