#!/bin/bash
# mfacts.sh <mutant name> : extract facts of /repo + mutants/<name>.diff into .work/m_<name>.json (debug helper)
set -e
cd "$(dirname "$0")/.."
n=$1; d=$(mktemp -d /tmp/mf-XXXX)
mkdir -p $d/repo; git -C /repo archive HEAD | tar -x -C $d/repo   # committed HEAD: unaffected by a seedeval run that has /repo patched for a moment
(cd $d/repo && git apply --whitespace=nowarn /verif/mutants/$n.diff)
./engine/facts.sh $d/repo .work/m_$n.json
rm -rf $d .work/m_$n.d
echo .work/m_$n.json
