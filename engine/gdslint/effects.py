"""A-EFFECT: which adjacency list a function touches, with which Vec operation, at which owner.

Field *roles* (OUT / IN) are not taken from field names: OUT is the list `connect`
pushes to at `self`, IN the list it pushes to at `other`.
"""
import re
from .core import calls_in, callee_name, pretty, strip_payload, unwrap_payload, term_calls, term_mentions, fidx
from .guards import ACQ

READ_OPS = {'get', 'iter', 'len', 'is_empty', 'first', 'last', 'as_slice', 'contains', 'deref', 'capacity', 'get_unchecked'}
MUT_OK = {'push', 'remove', 'clear'}


def adjacent_path(fl):
    return fl + '::node::adjacent::Adjacent'


class AdjModel:
    """per flavour: summaries of `impl Adjacent` methods"""

    def __init__(self, F, fl):
        self.F = F
        self.fl = fl
        self.path = adjacent_path(fl)
        self.adt = F.adts.get(self.path)
        self.fields = {}
        if self.adt:
            for i, f in enumerate(self.adt['variants'][0]['fields']):
                self.fields[str(i)] = f['name']
        self.methods = {}
        for q, b in F.bodies.items():
            if b['impl_self_q'] == self.path and b['kind'] != 'Closure' and not b['impl_trait']:
                self.methods[q] = self._direct(b)
        # closures inside methods belong to the method
        for q, b in F.bodies.items():
            if b['kind'] == 'Closure':
                owner = re.sub(r'(::\{closure#\d+\})+$', '', q)
                if owner in self.methods:
                    d = self._direct(b, closure=True)
                    self.methods[owner]['reads'] |= d['reads']
                    self.methods[owner]['ops'] += d['ops']
        # transitive closure over calls between Adjacent methods
        changed = True
        while changed:
            changed = False
            for q, m in self.methods.items():
                for c in m['calls']:
                    cm = self.methods.get(c)
                    if not cm:
                        continue
                    if not cm['reads'] <= m['reads']:
                        m['reads'] |= cm['reads']
                        changed = True
                    for op in cm['allops']:
                        if op not in m['allops']:
                            m['allops'].append(op)
                            changed = True
        self.OUT = self.IN = None

    def _direct(self, b, closure=False):
        F = self.F
        pv = F.prov(b)
        reads = set()
        ops = []
        calls = []
        tag = '@' + self.path

        def scan_place(pl):
            for p in pl['p']:
                if p.endswith(tag) and p.startswith('.'):
                    reads.add(fidx(p))

        def scan_op(o):
            if o.get('k') in ('copy', 'move'):
                scan_place(o['pl'])
        for bi, bb in enumerate(b['blocks']):
            if bb['cleanup']:
                continue
            for s in bb['stmts']:
                if s['k'] == 'assign':
                    scan_place(s['dst'])
                    rv = s['rv']
                    if 'pl' in rv:
                        scan_place(rv['pl'])
                    for o in rv.get('ops', []):
                        scan_op(o)
            t = bb['term']
            if t['k'] == 'call':
                for a in t['args']:
                    scan_op(a)
                if t['args']:
                    recv = strip_payload(pv.of_operand(t['args'][0]))
                    if isinstance(recv, tuple) and recv[0] == 'f' and recv[1] == ('param', 1) and recv[2] in self.fields and not closure:
                        name = callee_name(t).split('::')[-1].rstrip('>')
                        if name not in ('deref', 'deref_mut'):
                            ops.append((recv[2], name, bi))
                if t.get('local') and t.get('res') in F.bodies and F.bodies[t['res']]['impl_self_q'] == self.path:
                    calls.append(t['res'])
            elif t['k'] == 'switch':
                scan_op(t['op'])
        return {'reads': reads, 'ops': ops, 'allops': [(f, n) for f, n, _ in ops], 'calls': calls}

    def muts(self, q):
        """set of (field, op) with a mutating op, transitively"""
        m = self.methods.get(q)
        if not m:
            return set()
        return {(f, n) for f, n in m['allops'] if n not in READ_OPS}

    def reads(self, q):
        m = self.methods.get(q)
        return set(m['reads']) if m else set()

    def role(self, f):
        if f == self.OUT:
            return 'OUT'
        if f == self.IN:
            return 'IN'
        return 'field' + str(f)


def owner_of(term):
    """node X such that term goes through an acquisition of cell(X) = X.0.2; returns (X, mode) or (None, None)"""
    for c in term_calls(term):
        if c[1] in ACQ and c[2]:
            cell = strip_payload(c[2][0])
            if isinstance(cell, tuple) and cell[0] == 'f' and cell[2] == '2' and isinstance(cell[1], tuple) and cell[1][0] == 'f' and cell[1][2] == '0':
                return unwrap_payload(cell[1][1]), ACQ[c[1]]
    return None, None


def node_events(F, model, b):
    """calls from body b into Adjacent methods: [(bi, method q, owner term, [arg terms], terminator)]"""
    pv = F.prov(b)
    out = []
    for bi, t in calls_in(b, lambda t: t.get('local') and t.get('res') in model.methods):
        recv = pv.of_operand(t['args'][0]) if t['args'] else None
        own, mode = owner_of(recv)
        out.append((bi, t['res'], own, [pv.of_operand(a) for a in t['args'][1:]], t, mode))
    return out


def footprint(F, model, b, seen=None):
    """Adjacent fields read by b, transitively through crate-local calls (incl. closures and node iterators)"""
    seen = seen if seen is not None else set()
    if b['q'] in seen:
        return set()
    seen.add(b['q'])
    fp = set()
    for bi, t in calls_in(b):
        res = t.get('res')
        if t.get('local') and res in model.methods:
            fp |= model.reads(res)
        elif t.get('local') and res in F.bodies:
            fp |= footprint(F, model, F.bodies[res], seen)
        # iterator types handed to std (collect, map ...) and `for` loops: next() of crate iterators
        for gi in t.get('gargs', []):
            for ty in F.ty_walk(gi):
                if ty['k'] == 'adt' and ty.get('local'):
                    nq = '<%s as std::iter::Iterator>::next' % ty['p']
                    if nq in F.bodies:
                        fp |= footprint(F, model, F.bodies[nq], seen)
                if ty['k'] == 'closure' and ty['p'] in F.bodies:
                    fp |= footprint(F, model, F.bodies[ty['p']], seen)
    for bb in b['blocks']:
        if bb['cleanup']:
            continue
        for s in bb['stmts']:
            if s['k'] == 'assign' and s['rv']['k'] == 'aggr' and s['rv']['ak'].startswith('closure:'):
                cq = s['rv']['ak'][len('closure:'):]
                if cq in F.bodies:
                    fp |= footprint(F, model, F.bodies[cq], seen)
    return fp


def mutating_calls(F, model, b, seen=None):
    """does b (transitively, crate-local) call an Adjacent mutator?  returns list of (path of qnames, method)"""
    seen = seen if seen is not None else set()
    if b['q'] in seen:
        return []
    seen.add(b['q'])
    out = []
    for bi, t in calls_in(b):
        res = t.get('res')
        if t.get('local') and res in model.methods:
            if model.muts(res):
                out.append(([b['q']], res))
        elif t.get('local') and res in F.bodies:
            for path, m in mutating_calls(F, model, F.bodies[res], seen):
                out.append(([b['q']] + path, m))
    return out
