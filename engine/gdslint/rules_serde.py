"""C12 (SER1-5: writer/reader agreement) and C13 (DE1-4: robust reader)."""
import re
from .core import (Obl, calls_in, callee_name, pretty, strip_payload, unwrap_payload, deep_unwrap, term_calls, term_mentions, proj_field,
                   DIRECTED, UNDIRECTED)
from .kernels import key_of
from .guards import PANICKY
from .rules_edge import model, _iter_footprint
from .effects import footprint

P1_, P2_ = ('param', 1), ('param', 2)
VAL = lambda t: ('f', ('f', t, '0'), '1')


def _serde_bodies(F, fl):
    dec = [b for q, b in F.bodies.items() if F.flavour(b) == fl and b['kind'] == 'Fn' and 'graph_serde' in b['mods'] and b['argc'] == 1 and F.types[b['locals'][0]]['k'] == 'tuple']
    ser = F.bodies.get('<%s::Graph as serde::Serialize>::serialize' % fl)
    de = F.bodies.get('<%s::Graph as serde::Deserialize>::deserialize' % fl)
    vs = [b for q, b in F.bodies.items() if F.flavour(b) == fl and b['impl_trait'] == 'serde::de::Visitor' and b['name'] == 'visit_seq']
    return (dec[0] if len(dec) == 1 else None), ser, de, (vs[0] if len(vs) == 1 else None)


def _order(cfg, sites):
    """sort call sites by dominance (execution order on the straight-line spine)"""
    return sorted(sites, key=lambda s: sum(1 for o in sites if cfg.dominates(o[0], s[0])))


def _loops_with_driver(F, b):
    """natural loops keyed by the block of the Iterator::next() call that drives them"""
    cfg, pv = F.cfg(b), F.prov(b)
    loops = cfg.loops()
    nexts = dict(calls_in(b, lambda t: t['callee'] == 'std::iter::Iterator::next'))
    res = {}
    for h, body in loops.items():
        cands = [bi for bi in nexts if bi in body and all(cfg.dominates(bi, x) or x == h or cfg.dominates(x, bi) for x in body)]
        # the driver is the candidate that dominates every other candidate (outermost in this loop)
        drv = [c for c in cands if all(cfg.dominates(c, o) for o in cands)]
        if not drv:
            continue
        bi = drv[0]
        t = nexts[bi]
        item = deep_unwrap(proj_field(('v', ('call', callee_name(t), tuple(pv.of_operand(a) for a in t['args']), bi), 'Some#1'), '0'))
        res[bi] = {'body': body, 'iter': deep_unwrap(pv.of_operand(t['args'][0])), 'item': item, 't': t, 'head': h}
    return res


def _exhaustive(F, b, L):
    """all exits of loop L are 'iterator returned None' (or cannot return)"""
    cfg, pv = F.cfg(b), F.prov(b)
    bad = []
    for x in L['body']:
        for y in cfg.succ[x]:
            if y in L['body'] or y not in cfg.can_return():
                continue
            t = b['blocks'][x]['term']
            ok = False
            if t['k'] == 'switch':
                term = pv.of_operand(t['op'])
                if isinstance(term, tuple) and term[0] == 'discr' and isinstance(term[1], tuple) and term[1][0] == 'call' and term[1][1].endswith('::next'):
                    ok = [v for v, tg in t['targets'] if tg == y] == [0] or (y == t['otherwise'] and [v for v, _ in t['targets']] == [1])
            if not ok:
                bad.append((x, y))
    return bad


ORDER_RE = re.compile(r'::(rev|sort\w*|reverse|swap\w*|dedup\w*|retain\w*|insert|truncate|pop|drain|rotate\w*|remove|swap_remove|split_off|clear)$')


def _order_ops(F, b, recv_map, argmap, depth):
    """(callee, receiver term in the *outermost* caller, key closure term, where) of order-changing std calls in b and in the
    crate-local helpers it hands a list to (helpers = free functions or functions outside Node/Graph/Adjacent)"""
    pv = F.prov(b)

    def up(t):
        # translate a term of this body into the caller's terms
        t = strip_payload(t)
        if recv_map is not None and isinstance(t, tuple) and t and t[0] == 'param' and t[1] - 1 < len(recv_map):
            return recv_map[t[1] - 1]
        return t
    for bi, t in calls_in(b):
        name = callee_name(t)
        if ORDER_RE.search(name) and not name.endswith('Graph::insert') and not t.get('local') and t['args']:
            clo = up(pv.of_operand(t['args'][1])) if len(t['args']) > 1 else None
            yield name, up(pv.of_operand(t['args'][0])), clo, t['sp']
        elif t.get('local') and t.get('res') in F.bodies and depth < 3:
            cb = F.bodies[t['res']]
            if t['res'] in argmap or cb['kind'] == 'Closure' or re.search(r'::(node::Node|Graph|node::adjacent::Adjacent)$', cb.get('impl_self_q', '') or '') or cb.get('impl_trait'):
                continue
            args = [up(pv.of_operand(a)) for a in t['args']]
            for r in _order_ops(F, cb, args, argmap, depth + 1):
                yield r


def ser_rules(ctx, flavours):
    F = ctx.F
    out = []
    for fl in flavours:
        dec, ser, de, vs = _serde_bodies(F, fl)
        M = model(ctx, fl)
        if not (dec and ser and de and vs):
            out.append(Obl('SER', fl + '::graph_serde', '-', 'writer/reader present', False, 'anchor missing: decompose=%s serialize=%s deserialize=%s visit_seq=%s' % tuple(bool(x) for x in (dec, ser, de, vs))))
            continue
        # ---- SER1 shape
        spv, scfg = F.prov(ser), F.cfg(ser)
        why = []
        tup = [(bi, t) for bi, t in calls_in(ser) if t['callee'] == 'serde::Serializer::serialize_tuple']
        if len(tup) != 1 or spv.of_operand(tup[0][1]['args'][1]) != ('const', '2_usize'):
            why.append('serialize_tuple(2) not found')
        wel = _order(scfg, [(bi, t) for bi, t in calls_in(ser) if t['callee'] == 'serde::ser::SerializeTuple::serialize_element'])
        vpv, vcfg = F.prov(vs), F.cfg(vs)
        rel = _order(vcfg, [(bi, t) for bi, t in calls_in(vs) if t['callee'] == 'serde::de::SeqAccess::next_element'])
        wt = [F.types[t['gargs'][1]]['s'] if len(t['gargs']) > 1 else '?' for bi, t in wel]
        rt = [F.types[t['gargs'][1]]['s'] if len(t['gargs']) > 1 else '?' for bi, t in rel]
        if len(wel) != 2 or wt != rt:
            why.append('writer elements %s vs reader elements %s' % (wt, rt))
        # writer elements are decompose(self).0 then .1
        for i, (bi, t) in enumerate(wel):
            a = deep_unwrap(spv.of_operand(t['args'][1]))
            if not (isinstance(a, tuple) and a[0] == 'f' and a[2] == str(i) and isinstance(a[1], tuple) and a[1][0] == 'call' and a[1][1] == dec['q'] and deep_unwrap(a[1][2][0]) == P1_):
                why.append('element %d written is %s, expected decompose(self).%d' % (i, pretty(a), i))
        ends = [(bi, t) for bi, t in calls_in(ser) if t['callee'] == 'serde::ser::SerializeTuple::end']
        if len(ends) != 1:
            why.append('tuple not ended exactly once')
        else:
            # the declared length is honoured on every path: each element write dominates end(), in order, outside any loop
            for i, (bi, t) in enumerate(wel):
                if not scfg.dominates(bi, ends[0][0]):
                    why.append('element %d is not written on every path to end() although the tuple is declared with 2 elements' % i)
                if any(bi in body for body in scfg.loops().values()):
                    why.append('element %d is written inside a loop' % i)
            if len(wel) == 2 and not scfg.dominates(wel[0][0], wel[1][0]):
                why.append('element writes are not sequenced')
            if tup and not scfg.dominates(tup[0][0], wel[0][0] if wel else ends[0][0]):
                why.append('serialize_tuple does not precede the elements')
        out.append(Obl('SER1', ser['q'], ser['span'], 'wire shape: 2-tuple (%s) written = read' % ', '.join(wt), not why, '; '.join(why) if why else 'ok'))
        # ---- decompose structure
        dpv, dcfg = F.prov(dec), F.cfg(dec)
        L = _loops_with_driver(F, dec)
        members = {bi: l for bi, l in L.items() if isinstance(l['iter'], tuple) and l['iter'][0] == 'call' and l['iter'][1].split('::')[-1] == 'iter' and l['iter'][2] and l['iter'][2][0] in (P1_, ('f', P1_, '0'))}
        ret = dpv.of_local(0)
        nodes_v = edges_v = None
        if isinstance(ret, tuple) and ret[0] == 'aggr' and ret[1] == 'tuple' and len(ret[2]) == 2:
            nodes_v, edges_v = strip_payload(ret[2][0]), strip_payload(ret[2][1])
        pushes = [(bi, t) for bi, t in calls_in(dec) if callee_name(t).endswith('Vec::push')]
        why2, why3, why4, why5 = [], [], [], []
        if len(members) != 1 or nodes_v is None:
            why2.append('expected one loop over the members and a (nodes, edges) result')
        else:
            mb, ML = next(iter(members.items()))
            MEM = ('f', ML['item'], '1')
            if _exhaustive(F, dec, ML):
                why2.append('member loop has an early exit')
            inner = {bi: l for bi, l in L.items() if bi != mb and bi in ML['body']}
            exts = [(bi, t) for bi, t in calls_in(dec) if callee_name(t).split('::')[-1].rstrip('>') == 'extend' and bi in ML['body'] and strip_payload(dpv.of_operand(t['args'][0])) == edges_v]
            if not inner and len(exts) == 1:
                # accepted idiom: edges.extend(<edge iterator of the member>.map(|Edge(u, v, e)| (key(u), key(v), e)))
                from .core import closure_result
                xb, xt = exts[0]
                src = deep_unwrap(dpv.of_operand(xt['args'][1]))
                cs = term_calls(src)
                maps = [c for c in cs if c[1] == 'std::iter::Iterator::map']
                bad_ad = [c[1] for c in cs if c[1].startswith('std::iter::Iterator::') and c[1].split('::')[-1] in ('rev', 'skip', 'take', 'filter', 'step_by', 'skip_while', 'take_while', 'filter_map', 'chain', 'flat_map')]
                if len(maps) != 1 or bad_ad:
                    why2.append('edge list is extended with %s' % pretty(src))
                else:
                    it = deep_unwrap(maps[0][2][0])
                    okit = isinstance(it, tuple) and it[0] == 'call' and any(c[2] and deep_unwrap(c[2][0]) == MEM and (c[1] in F.bodies) for c in term_calls(it))
                    if not okit:
                        why2.append('edge iterator %s is not built on the member node' % pretty(it))
                    fp = None
                    srcs = [c for c in term_calls(it) if c[1] in F.bodies]
                    for c in srcs:
                        cb_ = F.bodies[c[1]]
                        rt_ = F.types[cb_['locals'][0]]
                        nb = F.bodies.get('<%s as std::iter::Iterator>::next' % rt_.get('p', ''))
                        if nb is not None:
                            fp = footprint(F, M, nb)
                        elif cb_['impl_self_q'] == fl + '::node::Node':
                            fp = footprint(F, M, cb_)
                    if fp != {M.OUT}:
                        why2.append('per member the writer enumerates lists %s: every edge is stored as one OUT half, so only {OUT} lists each edge exactly once' %
                                    (sorted(M.role(x) for x in fp) if fp else '?'))
                    cr = closure_result(F, maps[0][2][1], [P2_])
                    cr = deep_unwrap(cr) if cr is not None else None
                    exp = ('aggr', 'tuple', (key_of(('f', P2_, '0')), key_of(('f', P2_, '1')), ('f', P2_, '2')))
                    if cr != exp:
                        why3.append('edge tuple written is %s, expected (key(u), key(v), e)' % pretty(cr))
                np_ = [(bi, t) for bi, t in pushes if bi in ML['body']]
                if len(np_) != 1 or strip_payload(dpv.of_operand(np_[0][1]['args'][0])) != nodes_v:
                    why5.append('%d node pushes per member into the node list' % len(np_))
                else:
                    tv = deep_unwrap(dpv.of_operand(np_[0][1]['args'][1]))
                    if tv != ('aggr', 'tuple', (key_of(MEM), VAL(MEM))):
                        why5.append('node tuple written is %s, expected (key, value)' % pretty(tv))
            elif len(inner) != 1:
                why2.append('%d edge loops per member' % len(inner))
            else:
                eb, EL = next(iter(inner.items()))
                it = EL['iter']
                okit = isinstance(it, tuple) and it[0] == 'call' and any(c[2] and deep_unwrap(c[2][0]) == MEM and (c[1] in F.bodies) for c in term_calls(it))
                if not okit:
                    why2.append('edge iterator %s is not built on the member node' % pretty(it))
                # footprint of the iterator driving the edge loop (may be a Vec<Edge> built by a crate fn: take that fn's footprint)
                fp = None
                nt = EL['t']
                ity = F.types[nt['gargs'][0]] if nt['gargs'] else None
                if ity and ity.get('local'):
                    nb = F.bodies.get('<%s as std::iter::Iterator>::next' % ity['p'])
                    fp = footprint(F, M, nb) if nb else None
                if fp is None and isinstance(it, tuple) and it[0] == 'call':
                    src = [c for c in term_calls(it) if c[1] in F.bodies and F.bodies[c[1]]['impl_self_q'] == fl + '::node::Node']
                    if src:
                        fp = footprint(F, M, F.bodies[src[0][1]])
                        # a crate function that builds the list of edges (owned_edges): one push per entry it reads, nothing outside the loop
                        sb_ = F.bodies[src[0][1]]
                        if F.types[sb_['locals'][0]].get('p') == 'std::vec::Vec':
                            scfg_ = F.cfg(sb_)
                            sp_ = [pbi for pbi, pt in calls_in(sb_) if callee_name(pt).endswith('Vec::push')]
                            sloops_ = scfg_.loops()
                            in_loop = [pbi for pbi in sp_ if any(pbi in body_ for body_ in sloops_.values())]
                            if len(sp_) != 1 or len(in_loop) != 1:
                                why2.append('%s pushes %d times (%d in its loop): every half-edge it reads must be listed exactly once' % (sb_['name'], len(sp_), len(in_loop)))
                            else:
                                # the entry it reads next is the one at index len(list built so far): 0, 1, 2, .. without a gap or shift
                                spv_ = F.prov(sb_)
                                vec_ = deep_unwrap(spv_.of_operand(sb_['blocks'][sp_[0]]['term']['args'][0]))
                                for gbi_, gt_ in calls_in(sb_, lambda t_: t_.get('local') and t_.get('res') in M.methods and len(t_['args']) == 2):
                                    ix_ = deep_unwrap(spv_.of_operand(gt_['args'][1]))
                                    okix = isinstance(ix_, tuple) and ix_ and ix_[0] == 'call' and ix_[1].endswith('::len') and deep_unwrap(ix_[2][0]) == vec_
                                    if not okix and isinstance(ix_, tuple) and ix_ and ix_[0] == 'join' and len(ix_[1]) == 2 and ('const', '0_usize') in ix_[1]:
                                        # the same thing kept in a counter: starts at 0, `+= 1` once per push on every path round the loop
                                        oth = [x for x in ix_[1] if x != ('const', '0_usize')][0]
                                        if isinstance(oth, tuple) and oth[0] == 'f' and oth[2] == '0':
                                            oth = oth[1]
                                        if isinstance(oth, tuple) and oth[0] == 'binop' and oth[1] in ('AddWithOverflow', 'Add', 'AddUnchecked') and \
                                                isinstance(oth[2][0], tuple) and oth[2][0][0] == 'cycle' and oth[2][1] == ('const', '1_usize'):
                                            cl_ = oth[2][0][1]
                                            incs = [bi_ for bi_, blk_ in enumerate(sb_['blocks']) for st_ in blk_['stmts']
                                                    if st_['k'] == 'assign' and st_['dst']['l'] == cl_ and not st_['dst']['p'] and bi_ in scfg_.reach and
                                                    not (st_['rv']['k'] == 'use' and st_['rv']['ops'] and st_['rv']['ops'][0].get('k') == 'const')]
                                            lp_ = [(h_, body_) for h_, body_ in sloops_.items() if sp_[0] in body_]
                                            if len(incs) == 1 and lp_ and incs[0] in lp_[0][1] and \
                                                    all(scfg_.dominates(incs[0], x_) and scfg_.dominates(sp_[0], x_) for x_ in lp_[0][1] if lp_[0][0] in scfg_.succ[x_]):
                                                okix = True
                                    if F.types[sb_['locals'][gt_['args'][1]['pl']['l']]].get('s') == 'usize' and not okix:
                                        why2.append('%s reads entry %s, expected the entry at index len(list built so far)' % (sb_['name'], pretty(ix_)))
                if fp != {M.OUT}:
                    why2.append('per member the writer enumerates lists %s: every edge is stored as one OUT half, so only {OUT} lists each edge exactly once' %
                                (sorted(M.role(x) for x in fp) if fp else '?'))
                if _exhaustive(F, dec, EL):
                    why2.append('edge loop has an early exit')
                ITEM = EL['item']
                ep = [(bi, t) for bi, t in pushes if bi in EL['body']]
                np_ = [(bi, t) for bi, t in pushes if bi in ML['body'] and bi not in EL['body']]
                if len(ep) != 1 or strip_payload(dpv.of_operand(ep[0][1]['args'][0])) != edges_v:
                    why3.append('%d edge pushes per yielded edge into the edge list' % len(ep))
                else:
                    tv = deep_unwrap(dpv.of_operand(ep[0][1]['args'][1]))
                    exp = ('aggr', 'tuple', (key_of(('f', ITEM, '0')), key_of(('f', ITEM, '1')), ('f', ITEM, '2')))
                    if tv != exp:
                        why3.append('edge tuple written is %s, expected (key(u), key(v), e)' % pretty(tv))
                if len(np_) != 1 or strip_payload(dpv.of_operand(np_[0][1]['args'][0])) != nodes_v:
                    why5.append('%d node pushes per member into the node list' % len(np_))
                else:
                    tv = deep_unwrap(dpv.of_operand(np_[0][1]['args'][1]))
                    if tv != ('aggr', 'tuple', (key_of(MEM), VAL(MEM))):
                        why5.append('node tuple written is %s, expected (key, value)' % pretty(tv))
        # order: the edge list is append-only between the member loop and the wire (a stable sort keyed by the source alone keeps
        # every node's out-edges in order and is accepted); the node list may be permuted but not shortened; helpers are followed
        for b_, lists in ((dec, {'nodes': nodes_v, 'edges': edges_v}), (ser, {'nodes': ('f', ('call', dec['q'], (P1_,), None), '0'), 'edges': ('f', ('call', dec['q'], (P1_,), None), '1')})):
            for name, recv, clo, where_ in _order_ops(F, b_, None, {dec['q']} if b_ is ser else set(), 0):
                short = name.split('::')[-1]
                which_ = None
                for ln, lt in lists.items():
                    if lt is not None and (recv == lt or (isinstance(lt, tuple) and lt[0] == 'f' and isinstance(recv, tuple) and recv[0] == 'f' and recv[2] == lt[2] and
                                                         isinstance(recv[1], tuple) and recv[1][0] == 'call' and recv[1][1] == dec['q'])):
                        which_ = ln
                perm = re.match(r'^(sort\w*|reverse|swap|rotate\w*)$', short)
                if which_ == 'nodes' and perm:
                    continue
                if which_ == 'edges' and short in ('sort_by_key', 'sort_by_cached_key'):
                    from .core import closure_result
                    cr = closure_result(F, clo, [P2_]) if clo is not None else None
                    leaves = []
                    if cr is not None:
                        term_mentions(cr, lambda z: leaves.append(z[2]) or False if isinstance(z, tuple) and len(z) == 3 and z[0] == 'f' and z[1] == P2_ else False)
                    if leaves and all(x == '0' for x in leaves):
                        continue
                    why4.append('edge list is stably sorted by a key that is not the source alone (%s at %s)' % (short, where_))
                    continue
                why4.append('order-changing call %s on %s at %s' % (short, which_ or pretty(recv)[:40], where_))
        reorder = [callee_name(t) for b_ in (vs,) for bi, t in calls_in(b_) if re.search(r'::(rev|sort\w*|reverse|swap\w*|dedup\w*|retain|insert|truncate|pop|drain|rotate\w*)$', callee_name(t)) and
                   not callee_name(t).endswith('Graph::insert')]
        if reorder:
            why4.append('order-changing calls in the reader: ' + ', '.join(reorder))
        out.append(Obl('SER2', dec['q'], dec['span'], 'every edge is written exactly once (members x owned OUT halves)', not why2, '; '.join(why2) if why2 else 'ok'))
        # ---- reader side for SER3/SER5
        RL = _loops_with_driver(F, vs)
        conn = [(bi, t) for bi, t in calls_in(vs) if t.get('local') and t['res'] == fl + '::node::Node::connect']
        ins = [(bi, t) for bi, t in calls_in(vs) if t.get('local') and t['res'] == fl + '::Graph::insert']
        news = [(bi, t) for bi, t in calls_in(vs) if t.get('local') and t['res'] == fl + '::node::Node::new']
        if len(conn) != 1:
            why3.append('%d connect calls in the reader' % len(conn))
        else:
            cbi, ct = conn[0]
            loop = [l for bi, l in RL.items() if cbi in l['body']]
            if len(loop) != 1:
                why3.append('connect is not inside exactly one loop')
            else:
                T = loop[0]['item']
                a = [deep_unwrap(vpv.of_operand(x)) for x in ct['args']]

                def looked_up(term, idx):
                    gs = [c for c in term_calls(term) if c[1] == fl + '::Graph::get']
                    return len(gs) == 1 and deep_unwrap(gs[0][2][1]) == ('f', T, idx)
                if not (looked_up(a[0], '0') and looked_up(a[1], '1') and a[2] == ('f', T, '2')):
                    why3.append('reader connects (%s, %s, %s), expected (get(t.0), get(t.1), t.2)' % tuple(pretty(x) for x in a))
                elt = loop[0]['iter']
                if not (isinstance(elt, tuple) and elt[0] == 'call' and elt[1].endswith('IntoIterator>::into_iter')):
                    why4.append('reader does not walk the edge list front to back: ' + pretty(elt))
        if len(ins) != 1 or len(news) != 1:
            why5.append('%d insert / %d Node::new calls in the reader' % (len(ins), len(news)))
        else:
            ibi, it = ins[0]
            loop = [l for bi, l in RL.items() if ibi in l['body']]
            if len(loop) != 1:
                why5.append('insert is not inside exactly one loop')
            else:
                T = loop[0]['item']
                na = [deep_unwrap(vpv.of_operand(x)) for x in news[0][1]['args']]
                if na != [('f', T, '0'), ('f', T, '1')]:
                    why5.append('Node::new(%s), expected (t.0, t.1)' % ', '.join(pretty(x) for x in na))
                ia = deep_unwrap(vpv.of_operand(it['args'][1]))
                if not (isinstance(ia, tuple) and ia[0] == 'call' and ia[1] == fl + '::node::Node::new'):
                    why5.append('inserted value is not the new node')
                # all inserts happen before any connect
                if conn and not (vcfg.path_exists(ibi, conn[0][0]) and not vcfg.path_exists(conn[0][0], ibi)):
                    why5.append('node insertion is not finished before edges are connected')
        out.append(Obl('SER3', dec['q'], dec['span'], 'orientation: writer (key(u), key(v), e) / reader connect(get(t.0), get(t.1), t.2)', not why3, '; '.join(why3) if why3 else 'ok'))
        out.append(Obl('SER4', dec['q'], dec['span'], 'order: push + forward loops on both sides, no reordering call', not why4, '; '.join(why4) if why4 else 'ok'))
        out.append(Obl('SER5', dec['q'], dec['span'], 'nodes: writer (key, value) once per member / reader insert(Node::new(t.0, t.1)) before connecting', not why5, '; '.join(why5) if why5 else 'ok'))
    return out


def de_rules(ctx, flavours):
    F, G = ctx.F, ctx.G()
    out = []
    for fl in flavours:
        dec, ser, de, vs = _serde_bodies(F, fl)
        if not (de and vs):
            out.append(Obl('DE', fl + '::graph_serde', '-', 'reader present', False, 'anchor missing'))
            continue
        pv, cfg = F.prov(vs), F.cfg(vs)
        closures = [b for q, b in F.bodies.items() if q.startswith(vs['q'] + '::{closure')]
        # DE0: visit_seq is the reader's only way in -- the clauses below are about it.  Another `visit_*` of the same visitor
        # (reached through deserialize_any / deserialize_map) is an entry point none of them looks at.
        vim = [im for im in F.impls if im['trait'] == 'serde::de::Visitor' and im['self_q'].startswith(fl + '::')]
        extra_v = sorted(i.split('::')[-1] for im in vim for i in im['items'] if i.split('::')[-1].startswith('visit_') and i.split('::')[-1] != 'visit_seq')
        drv = [callee_name(t).split('::')[-1] for bi, t in calls_in(de) if callee_name(t).split('::')[-1].startswith('deserialize_')]
        ok0 = not extra_v and bool(drv) and all(d in ('deserialize_seq', 'deserialize_tuple', 'deserialize_tuple_struct') for d in drv)
        out.append(Obl('DE0', de['q'], de['span'], 'the document is read as a sequence through visit_seq only', ok0,
                       'ok (%s)' % ', '.join(drv) if ok0 else 'further visitor entry points %s / driver calls %s are not covered by the reader rules' % (extra_v, drv)))
        # DE6: a decoding error is an error of the whole read.  The Result of every SeqAccess::next_element is propagated (`?`) or,
        # when matched by hand, its Err outcome ends in an Err return -- `if let Ok(Some(x)) = seq.next_element()` turns an ill-typed
        # or truncated list into "no list" and the reader answers Ok
        nel = [(bi, t) for bi, t in calls_in(vs) if t['callee'] == 'serde::de::SeqAccess::next_element']
        why6 = []
        if not nel:
            why6.append('no next_element call found')
        for nbi, nt in nel:
            handled = False
            for sb in sorted(cfg.reach):
                st = vs['blocks'][sb]['term']
                if st['k'] != 'switch':
                    continue
                term = pv.of_operand(st['op'])
                if not (isinstance(term, tuple) and term and term[0] == 'discr'):
                    continue
                x = term[1]
                cs = term_calls(x)
                if not any(c[0] == 'call' and len(c) > 3 and c[3] == nbi for c in cs):
                    continue
                outer = cs[0] if cs else None
                if outer and outer[1].endswith('Try>::branch') or (outer and outer[1] == 'std::ops::Try::branch'):
                    handled = True      # `?`: the Break arm returns from_residual(err)
                    continue
                if outer and len(outer) > 3 and outer[3] == nbi and strip_payload(x) == outer:
                    # a hand-written match on the Result itself
                    names = None
                    for s_ in vs['blocks'][sb]['stmts']:
                        if s_['k'] == 'assign' and s_['rv']['k'] == 'discr' and s_['rv'].get('variants'):
                            names = s_['rv']['variants']
                    if names != ['Ok', 'Err']:
                        continue
                    handled = True
                    okt = [tg for v, tg in st['targets'] if v == 0]
                    errt = [tg for v, tg in st['targets'] if v == 1] or ([st['otherwise']] if vs['blocks'][st['otherwise']]['term']['k'] != 'unreachable' else [])
                    errset = {bi_ for bi_, bb_ in enumerate(vs['blocks']) if
                              any(s_['k'] == 'assign' and s_['dst']['l'] == 0 and not s_['dst']['p'] and s_['rv']['k'] == 'aggr' and s_['rv'].get('ak', '').endswith('Result::Err') for s_ in bb_['stmts']) or
                              (bb_['term']['k'] == 'call' and bb_['term']['callee'].endswith('FromResidual::from_residual'))}
                    for tg in errt:
                        if tg in errset:
                            continue
                        if any(cfg.path_exists(tg, rb_, avoiding=errset) for rb_ in cfg.returns):
                            why6.append('the Err outcome of next_element at %s can reach a return that is not an error' % nt['sp'])
            if not handled:
                why6.append('the Result of next_element at %s is neither propagated nor matched' % nt['sp'])
        out.append(Obl('DE6', vs['q'], vs['span'], 'decoding errors of the element reads are propagated (%d reads)' % len(nel), not why6, '; '.join(why6) if why6 else 'ok'))
        # DE1
        why = []
        conn = [(bi, t) for bi, t in calls_in(vs) if t.get('local') and t['res'] in (fl + '::node::Node::connect', fl + '::node::Node::try_connect')]
        gets = [(bi, t) for bi, t in calls_in(vs) if t.get('local') and t['res'] == fl + '::Graph::get']
        if not conn:
            why.append('no connect call')
        for cbi, ct in conn:
            for ai in (0, 1):
                a = pv.of_operand(ct['args'][ai])
                gs = [c for c in term_calls(a) if c[1] == fl + '::Graph::get']
                if len(gs) != 1:
                    why.append('endpoint %d of connect does not come from a container lookup' % ai)
                    continue
                gbi = gs[0][3]
                # the branch on the lookup outcome: `?` (possibly behind ok_or_else / map_err), a match / let-else on the Option, is_some ..
                from .core import outcome_edges
                ge, be = outcome_edges(F, vs, gbi)
                dom_ok = ge is not None and cfg.edge_dominates(ge[0], ge[1], cbi)
                if dom_ok and be is not None and cfg.path_exists(be[1], cbi):
                    why.append('a failed lookup of endpoint %d can still reach connect' % ai)
                if not dom_ok:
                    why.append('connect is not dominated by the success outcome of the lookup of endpoint %d' % ai)
        # each lookup's failure produces a custom error
        for q_ in closures:
            pass
        reach_bodies = [F.bodies[q] for q in reader_reach(ctx, (fl,)) if q in F.bodies]
        custom = [b2 for b2 in reach_bodies if any(callee_name(t).endswith('de::Error::custom') or t['callee'] == 'serde::de::Error::custom' for bi, t in calls_in(b2))]
        if gets and not custom:
            why.append('%d lookups but no de::Error::custom(..) constructor is reachable from the reader' % len(gets))
        out.append(Obl('DE1', vs['q'], vs['span'], 'every connect is behind the success of both endpoint lookups; a failed lookup returns Err(custom(..))', not why, '; '.join(why) if why else '%d lookups, %d connect' % (len(gets), len(conn))))
        # DE2: no panic-capable call
        for b in [de, vs] + closures:
            bad = []
            for bi, t in calls_in(b):
                c = callee_name(t)
                if t['exp'].startswith('macro:') and 'format' in t['exp']:
                    pass
                if PANICKY.match(c) or PANICKY.match(t['callee']):
                    bad.append('%s@%s' % (c.split('::')[-1], t['sp']))
            for bi, bb in enumerate(b['blocks']):
                if bb['term']['k'] == 'assert' and not bb['cleanup']:
                    bad.append('assert(%s)@%s' % (bb['term'].get('msg', '')[:20], bb['term']['sp']))
            out.append(Obl('DE2', b['q'], b['span'], 'no unwrap / expect / panic / indexing / arithmetic assert in the reader', not bad, 'none' if not bad else ', '.join(bad)))
        # DE2-trans: nothing the reader can reach in this crate can panic on attacker-controlled data
        reach = sorted(reader_reach(ctx, (fl,)))
        for q in reach:
            rb = F.bodies.get(q)
            if rb is None or rb in [de, vs] + closures:
                continue
            bad = []
            for bi, t in calls_in(rb):
                c = callee_name(t)
                if not (PANICKY.match(c) or PANICKY.match(t['callee'])):
                    continue
                if c.startswith('std::cell::RefCell::'):
                    continue   # double borrows are G3's business
                # unwrap of a LockResult (poisoning needs an earlier panic) is the locking idiom, not a data-dependent panic
                if t['args'] and any(ty['k'] == 'adt' and ty['p'] == 'std::sync::PoisonError' for ty in F.ty_walk(rb['locals'][t['args'][0]['pl']['l']])) if t['args'] and t['args'][0].get('k') in ('move', 'copy') else False:
                    continue
                bad.append('%s@%s' % (c.split('::')[-1], t['sp']))
            for bi, bb in enumerate(rb['blocks']):
                if bb['term']['k'] == 'assert' and not bb['cleanup'] and re.search(r'Sub|Div|Rem|Shl|Shr|BoundsCheck|Neg', bb['term'].get('msg', '')):
                    bad.append('assert(%s)@%s' % (bb['term'].get('msg', '')[:24], bb['term']['sp']))
            out.append(Obl('DE2', q, rb['span'], 'reachable from the reader: no data-dependent panic site (unwrap/expect/index/truncate/split/arith underflow)', not bad, 'none' if not bad else ', '.join(bad)))
        # DE3: only insert/connect build the graph; arguments come from the document
        why = []
        allowed = {fl + '::Graph::new', fl + '::Graph::with_capacity', fl + '::Graph::insert', fl + '::Graph::get', fl + '::Graph::contains', fl + '::node::Node::new', fl + '::node::Node::connect', fl + '::node::Node::try_connect'}
        for bi, t in calls_in(vs, lambda t: t.get('local')):
            if t['res'] not in allowed and t['res'] in F.bodies and not t['res'].startswith(vs['q']):
                why.append('reader calls ' + t['res'])
        ret_ok = False
        ret_ls = {0} | {r['ret'] for r in vs.get('inl_regions', [])}    # results of absorbed helpers are the reader's result
        for bi, bb in enumerate(vs['blocks']):
            for s in bb['stmts']:
                if s['k'] == 'assign' and s['dst']['l'] in ret_ls and not s['dst']['p'] and s['rv']['k'] == 'aggr' and s['rv']['ak'].endswith('Result::Ok'):
                    g = strip_payload(pv.of_operand(s['rv']['ops'][0]))
                    ret_ok = isinstance(g, tuple) and g[0] == 'call' and g[1] == fl + '::Graph::new'
        if not ret_ok:
            why.append('Ok(..) does not return the graph that was built')
        out.append(Obl('DE3', vs['q'], vs['span'], 'graph built only through Graph::insert / Node::connect from document elements', not why, '; '.join(why) if why else 'ok'))
        # DE4: defaults
        why = []
        nel = [(bi, t) for bi, t in calls_in(vs) if t['callee'] == 'serde::de::SeqAccess::next_element']
        RL = _loops_with_driver(F, vs)
        lists = 0
        for bi, l in RL.items():
            it = l['iter']
            src = it[2][0] if isinstance(it, tuple) and it[0] == 'call' and it[2] else None
            src_raw = pv.of_operand(l['t']['args'][0])
            if term_mentions(src_raw, lambda z: isinstance(z, tuple) and z and z[0] == 'call' and z[1] == 'serde::de::SeqAccess::next_element'):
                lists += 1
                has_default = term_mentions(src_raw, lambda z: isinstance(z, tuple) and z and z[0] == 'call' and (
                    z[1].endswith('Vec::new') or z[1].split('::')[-1] in ('unwrap_or_default', 'default') or
                    (z[1].split('::')[-1] in ('unwrap_or', 'unwrap_or_else') and len(z[2]) > 1 and (term_mentions(z[2][1], lambda y: isinstance(y, tuple) and y and y[0] in ('call', 'fn') and str(y[1]).endswith('Vec::new'))))))
                if not has_default:
                    why.append('a list read from the document has no empty default')
                if _exhaustive(F, vs, l) and any(y in cfg.can_return() for x, y in _exhaustive(F, vs, l) if not _exit_is_error(F, vs, y)):
                    why.append('a loop over a document list has an early non-error exit')
        if lists != 2 or len(nel) != 2:
            why.append('%d loops over %d document lists (expected 2 / 2)' % (lists, len(nel)))
        out.append(Obl('DE4', vs['q'], vs['span'], 'a missing element leaves the list empty; both lists are walked by plain for-loops', not why, '; '.join(why) if why else 'ok'))
        # DE5 (must-pass-through): the reader answers Ok only after it has walked both document lists to their end -- no shortcut
        # returns a graph while edge records are still unexamined
        why = []
        from .core import outcome_edges
        oks = [bi for bi, bb in enumerate(vs['blocks']) if not bb['cleanup'] and bi in cfg.reach and
               any(s_['k'] == 'assign' and s_['dst']['l'] in ret_ls and not s_['dst']['p'] and s_['rv']['k'] == 'aggr' and s_['rv']['ak'].endswith('Result::Ok') for s_ in bb['stmts'])]
        nlist = 0
        for bi, l in RL.items():
            src_raw = pv.of_operand(l['t']['args'][0])
            if not term_mentions(src_raw, lambda z: isinstance(z, tuple) and z and z[0] == 'call' and z[1] == 'serde::de::SeqAccess::next_element'):
                continue
            nlist += 1
            some_e, none_e = outcome_edges(F, vs, bi)
            if none_e is None:
                why.append('cannot find the exhausted exit of the loop at %s' % l['t']['sp'])
                continue
            for ob in oks:
                if not cfg.edge_dominates(none_e[0], none_e[1], ob):
                    osp = next((s_['sp'] for s_ in vs['blocks'][ob]['stmts'] if s_['k'] == 'assign' and s_['rv']['k'] == 'aggr' and s_['rv']['ak'].endswith('Result::Ok')), '?')
                    why.append('Ok(..) at %s can be returned without walking the document list iterated at %s to its end' % (osp, l['t']['sp']))
        if not oks:
            why.append('no Ok(..) return found')
        out.append(Obl('DE5', vs['q'], vs['span'], 'Ok is returned only after both document lists were walked to their end (%d lists, %d Ok sites)' % (nlist, len(oks)), not why, '; '.join(why) if why else 'ok'))
    return out


def _exit_is_error(F, b, y):
    """all paths from y reach return through a from_residual (error propagation)"""
    cfg = F.cfg(b)
    seen = set()
    st = [y]
    hit = False
    while st:
        x = st.pop()
        if x in seen:
            continue
        seen.add(x)
        t = b['blocks'][x]['term']
        if t['k'] == 'call' and t['callee'].endswith('FromResidual::from_residual'):
            hit = True
            continue
        if any(s_['k'] == 'assign' and s_['dst'] == {'l': 0, 'p': []} and s_['rv']['k'] == 'aggr' and s_['rv']['ak'].endswith('Result::Err') for s_ in b['blocks'][x]['stmts']):
            hit = True       # explicit `return Err(..)`
            continue
        if t['k'] == 'return':
            return False
        st.extend(cfg.succ[x])
    return hit


def reader_reach(ctx, flavours):
    """crate-local functions reachable from deserialize / visit_seq through resolved calls and closures built on the way"""
    F = ctx.F
    reach = set()
    for fl in flavours:
        dec, ser, de, vs = _serde_bodies(F, fl)
        st = [b['q'] for b in (de, vs) if b]
        while st:
            q = st.pop()
            if q in reach or q not in F.bodies:
                continue
            reach.add(q)
            b = F.bodies[q]
            for bi, t in calls_in(b):
                if t.get('local') and t.get('res') in F.bodies:
                    st.append(t['res'])
                for gi in t.get('gargs', []):
                    for ty in F.ty_walk(gi):
                        if ty['k'] == 'closure' and ty['p'] in F.bodies:
                            st.append(ty['p'])
            for bb in b['blocks']:
                for s_ in bb['stmts']:
                    if s_['k'] == 'assign' and s_['rv']['k'] == 'aggr' and s_['rv']['ak'].startswith('closure:'):
                        st.append(s_['rv']['ak'][len('closure:'):])
    return reach


def g3_reader(ctx, flavours):
    from . import rules_guard as rg
    reach = reader_reach(ctx, flavours)
    return [o for o in rg.g3(ctx, flavours) if o['func'] in reach]
