"""C19: ownership structure.  OWN1 (adjacency holds only weak peers), OWN2 (public API hands out strong handles),
OWN3 (no leak / raw-pointer escape hatches; zero-count with a positive control), OWN4 (downgrade in, upgrade out)."""
import os, re, json, tempfile, shutil
from .core import Obl, Facts, calls_in, callee_name, pretty, strip_payload, unwrap_payload, term_calls, FLAVOURS
from . import witness
from .rules_edge import model

STRONG = re.compile(r'^std::(rc::Rc|sync::Arc)$')
WEAK = re.compile(r'^std::(rc::Weak|sync::Weak)$')
ESCAPES = re.compile(r'^(std::mem::forget|std::mem::ManuallyDrop::new|std::boxed::Box::leak|std::boxed::Box::into_raw|std::boxed::Box::from_raw|'
                     r'std::(rc::Rc|sync::Arc)::(into_raw|from_raw|increment_strong_count|decrement_strong_count|as_ptr)|'
                     r'std::(rc::Weak|sync::Weak)::(into_raw|from_raw|as_ptr)|std::mem::transmute|std::ptr::(read|write)|std::intrinsics::transmute)$')
CONTROL_EXPECT = {'std::mem::forget', 'std::mem::ManuallyDrop::new', 'std::boxed::Box::leak', 'std::rc::Rc::into_raw', 'std::rc::Rc::from_raw',
                  'std::sync::Arc::into_raw', 'std::sync::Arc::from_raw', 'std::sync::Arc::increment_strong_count', 'std::sync::Arc::decrement_strong_count',
                  'std::rc::Weak::into_raw', 'std::rc::Weak::from_raw'}


def _walk_owned(F, tyid, seen, path, hits, stop_at_weak=True):
    """walk everything a value of this type owns strongly; record strong pointers / Node handles reached"""
    t = F.types[tyid]
    if t['k'] == 'adt':
        p = t['p']
        if WEAK.match(p) and stop_at_weak:
            hits.append(('weak', p, list(path)))
            return
        if STRONG.match(p):
            hits.append(('strong', p, list(path)))
            return
        if t.get('local'):
            if re.search(r'::node::Node$', p):
                hits.append(('strong', p, list(path)))
                return
            adt = F.adts.get(p)
            if adt and p not in seen:
                seen.add(p)
                for v in adt['variants']:
                    for f in v['fields']:
                        _walk_owned(F, f['ty'], seen, path + [p.split('::')[-1] + '.' + f['name']], hits)
                seen.discard(p)
            return
    if t['k'] in ('ref', 'ptr'):
        return
    for a in t.get('a', []):
        _walk_owned(F, a, seen, path, hits)


def own1(ctx, flavours):
    F = ctx.F
    out = []
    for fl in flavours:
        M = model(ctx, fl)
        if not M.adt:
            out.append(Obl('OWN1', M.path, '-', 'Adjacent present', False, 'anchor missing'))
            continue
        for f in M.adt['variants'][0]['fields']:
            hits = []
            _walk_owned(F, f['ty'], set(), ['Adjacent.' + f['name']], hits)
            strong = [h for h in hits if h[0] == 'strong']
            weak = [h for h in hits if h[0] == 'weak']
            ok = not strong and bool(weak)
            out.append(Obl('OWN1', M.path, M.adt['span'], 'list %s owns only weak peer references' % f['name'], ok,
                           'strong handle reachable via ' + ' -> '.join(strong[0][2]) + ' -> ' + strong[0][1] if strong else ('no weak reference found' if not weak else 'weak via ' + ' -> '.join(weak[0][2]))))
        # Node's single strong edge: Node { inner: Rc|Arc<(K, N, cell<Adjacent>)> }
        nadt = F.adts.get(fl + '::node::Node')
        ok = False
        why = 'Node missing'
        if nadt:
            fs = nadt['variants'][0]['fields']
            t = F.types[fs[0]['ty']] if len(fs) == 1 else None
            ok = bool(t and t['k'] == 'adt' and STRONG.match(t['p']) and F.ty_has_adt(fs[0]['ty'], '^' + re.escape(M.path) + '$'))
            why = 'Node { %s: %s }' % (fs[0]['name'], t['s'] if t else '?') if len(fs) == 1 else '%d fields' % len(fs)
        out.append(Obl('OWN1', fl + '::node::Node', nadt['span'] if nadt else '-', 'Node is one strong pointer to (key, value, cell<Adjacent>)', ok, why))
        # what the allocation itself owns: nothing strong (a strong handle stored inside a node's own allocation -- a predecessor
        # link, a cached edge, a parent pointer -- closes a cycle through the node whatever the lists hold)
        if nadt and len(nadt['variants'][0]['fields']) == 1:
            hits = []
            for a in F.types[nadt['variants'][0]['fields'][0]['ty']].get('a', []):
                _walk_owned(F, a, set(), ['Node.inner'], hits)
            strong = [h for h in hits if h[0] == 'strong']
            out.append(Obl('OWN1', fl + '::node::Node', nadt['span'], "the node's allocation owns no strong handle", not strong,
                           'strong handle reachable via ' + ' -> '.join(strong[0][2]) + ' -> ' + strong[0][1] if strong else
                           '%d weak reference path(s), all inside the adjacency lists' % len([h for h in hits if h[0] == 'weak'])))
        # WeakNode: one weak pointer to the same allocation type
        wadt = F.adts.get(fl + '::node::adjacent::WeakNode')
        ok = False
        why = 'WeakNode missing'
        if wadt:
            fs = wadt['variants'][0]['fields']
            t = F.types[fs[0]['ty']] if len(fs) == 1 else None
            ok = bool(t and t['k'] == 'adt' and WEAK.match(t['p']))
            why = 'WeakNode { %s: %s }' % (fs[0]['name'], t['s'] if t else '?') if len(fs) == 1 else '%d fields' % len(fs)
        out.append(Obl('OWN1', fl + '::node::adjacent::WeakNode', wadt['span'] if wadt else '-', 'WeakNode is one weak pointer', ok, why))
    return out


def own2(ctx, flavours):
    """no reachable (public) signature or public type mentions WeakNode / Weak; result types hold strong Node handles"""
    F = ctx.F
    out = []
    for fl in flavours:
        n = 0
        for q, f in sorted(F.fns.items()):
            if not q.startswith(fl + '::') and not q.startswith('<' + fl + '::') and not q.startswith('<&' + fl + '::'):
                continue
            if not f.get('reach'):
                continue
            n += 1
            bad = [F.types[i]['s'] for i in f['inputs'] + [f['output']] if F.ty_has_adt(i, r'::adjacent::WeakNode$|^std::(rc|sync)::Weak$')]
            out.append(Obl('OWN2', q, f['span'], 'public signature mentions only strong handles', not bad, 'weak reference in public signature: ' + ', '.join(bad) if bad else 'ok'))
        if n == 0:
            out.append(Obl('OWN2', fl, '-', 'public functions', False, 'no reachable function found'))
        for tn in ('node::Edge', 'node::algo::path::Path', 'Graph'):
            adt = F.adts.get('%s::%s' % (fl, tn))
            if not adt:
                out.append(Obl('OWN2', '%s::%s' % (fl, tn), '-', 'type present', False, 'anchor missing'))
                continue
            hits = []
            for f in adt['variants'][0]['fields']:
                _walk_owned(F, f['ty'], set(), [tn.split('::')[-1] + '.' + f['name']], hits)
            strong = [h for h in hits if h[0] == 'strong']
            weak = [h for h in hits if h[0] == 'weak']
            out.append(Obl('OWN2', adt['path'], adt['span'], '%s keeps the nodes it mentions alive (strong handles, no weak ones)' % tn.split('::')[-1], bool(strong) and not weak,
                           'holds %d strong / %d weak' % (len(strong), len(weak))))
    return out


def _scan_escapes(F):
    found = []
    for q, b in F.bodies.items():
        for bi, t in calls_in(b):
            for name in (t['callee'], t.get('res', '')):
                if name and ESCAPES.match(name):
                    found.append((q, t['sp'], name))
                    break
    return found


def own3(ctx):
    F = ctx.F
    out = []
    found = _scan_escapes(F)
    ncalls = sum(1 for b in F.bodies.values() for bb in b['blocks'] if not bb['cleanup'] and bb['term']['k'] == 'call')
    out.append(Obl('OWN3', 'crate', '-', 'no forget / ManuallyDrop / leak / raw-pointer round trip (%d call sites scanned)' % ncalls, not found,
                   'none' if not found else '; '.join('%s@%s in %s' % (n, sp, q) for q, sp, n in found[:5])))
    user_unsafe = [u for u in F.unsafe_blocks if u.get('user')]
    out.append(Obl('OWN3', 'crate', '-', 'no user-written unsafe block', not user_unsafe, 'none' if not user_unsafe else ', '.join(u['span'] for u in user_unsafe)))
    ufns = [f for f in F.fns.values() if f.get('unsafe')]
    out.append(Obl('OWN3', 'crate', '-', 'no unsafe fn', not ufns, 'none' if not ufns else ', '.join(f['q'] for f in ufns)))
    # positive control
    ctl = os.path.join(witness.VERIF, 'probes', 'controls', 'own3_control.rs')
    work = os.environ.get('GDSL_WORK', os.path.join(witness.VERIF, '.work'))
    tmp = tempfile.mkdtemp(prefix='ctl-', dir=work)
    try:
        fj = os.path.join(tmp, 'own3_control.json')
        res, rmeta = witness.run_many([{'name': 'own3_control', 'src': open(ctl).read(), 'facts': fj}], rmeta=getattr(ctx, 'rmeta', None))
        okc, diags = res['own3_control']
        if not okc or not os.path.exists(fj):
            out.append(Obl('OWN3-CONTROL', 'probes/controls/own3_control.rs', '-', 'positive control compiles through the extractor', False, 'control did not compile: %s' % diags[:2]))
        else:
            CF = Facts(fj)
            got = {n for _, _, n in _scan_escapes(CF)}
            miss = CONTROL_EXPECT - got
            ub = [u for u in CF.unsafe_blocks if u.get('user')]
            uf = [f for f in CF.fns.values() if f.get('unsafe')]
            ok = not miss and len(ub) >= 5 and len(uf) == 1
            out.append(Obl('OWN3-CONTROL', 'probes/controls/own3_control.rs', '-', 'scanner finds every escape hatch in the control fixture', ok,
                           'found %d kinds, %d unsafe blocks, %d unsafe fns' % (len(got), len(ub), len(uf)) if ok else 'missed: %s (unsafe blocks %d, unsafe fns %d)' % (sorted(miss), len(ub), len(uf))))
    finally:
        shutil.rmtree(tmp, ignore_errors=True)
    return out


def own4(ctx, flavours):
    """find_* / lookups hand out upgrade(..) results of the stored weak peer (same allocation), never a copy"""
    F = ctx.F
    out = []
    for fl in flavours:
        M = model(ctx, fl)
        up = F.find(fl, 'node::adjacent::WeakNode::upgrade')
        dn = F.find(fl, 'node::adjacent::WeakNode::downgrade')
        for b, nm, pat in ((up, 'upgrade', r'::Weak::upgrade$'), (dn, 'downgrade', r'::(Rc|Arc)::downgrade$')):
            if b is None:
                out.append(Obl('OWN4', '%s::node::adjacent::WeakNode::%s' % (fl, nm), '-', 'present', False, 'anchor missing'))
                continue
            cs = [callee_name(t) for bi, t in calls_in(b)]
            ok = any(re.search(pat, c) for c in cs)
            out.append(Obl('OWN4', b['q'], b['span'], 'WeakNode::%s delegates to the std pointer %s' % (nm, nm), ok, 'calls ' + ', '.join(c.split('::')[-1] for c in cs)))
        # public lookups returning Option<Node>
        for q, b in sorted(F.bodies.items()):
            if F.flavour(b) != fl or b['kind'] == 'Closure' or b['impl_self_q'] != fl + '::node::Node' or b['impl_trait']:
                continue
            rt = F.types[b['locals'][0]]
            if not (rt['k'] == 'adt' and rt['p'] == 'std::option::Option' and F.ty_has_adt(b['locals'][0], r'^%s::node::Node$' % fl)):
                continue
            # result = map(<adjacent lookup>, closure) where the closure returns upgrade(entry.0).unwrap()
            pv = F.prov(b)
            t = pv.of_local(0)
            clos = [z for c in term_calls(t) for z in c[2] if isinstance(z, tuple) and z and z[0] == 'aggr' and z[1].startswith('closure:')]
            ok = False
            why = 'result is ' + pretty(t)
            if len(clos) == 1:
                cb = F.bodies.get(clos[0][1][len('closure:'):])
                ct = unwrap_payload(F.prov(cb).of_local(0)) if cb else None
                ok = isinstance(ct, tuple) and ct[0] == 'call' and ct[1].endswith('::WeakNode::upgrade')
                why = 'returns ' + pretty(ct)
            if not ok and not clos:
                # explicit forms: `let (n, _) = lookup?; Some(n.upgrade().unwrap())`, match / if-let with Some(upgrade(..)) arms
                def alts(x):
                    if isinstance(x, tuple) and x and x[0] == 'join':
                        r = []
                        for y in x[1]:
                            r += alts(y)
                        return r
                    return [x]
                kinds = []
                for a in alts(t):
                    a0 = a
                    while isinstance(a0, tuple) and a0 and a0[0] == 'v':
                        a0 = a0[1]
                    if isinstance(a0, tuple) and a0 and a0[0] == 'aggr' and a0[1].endswith('Option::Some') and a0[2]:
                        pl = unwrap_payload(a0[2][0])
                        kinds.append('up' if isinstance(pl, tuple) and pl and pl[0] == 'call' and pl[1].endswith('::WeakNode::upgrade') else 'other:' + pretty(pl))
                    elif isinstance(a0, tuple) and a0 and a0[0] == 'aggr' and a0[1].endswith('Option::None'):
                        kinds.append('none')
                    elif isinstance(a0, tuple) and a0 and a0[0] == 'call' and a0[1].endswith('from_residual'):
                        kinds.append('none')      # `?` on the lookup: None propagates
                    else:
                        kinds.append('other:' + pretty(a0))
                ok = 'up' in kinds and all(k in ('up', 'none') for k in kinds)
                if ok:
                    why = 'Some(upgrade(entry.0)) / None'
            out.append(Obl('OWN4', q, b['span'], 'lookup hands out the upgraded stored peer', ok, why))
    return out
