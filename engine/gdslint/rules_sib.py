"""C15: sibling agreement (SIB) between plain and sync flavours, and flavour closure (FLAV).

A-BAG: per function, the multiset of events (crate-local calls, collection ops, enum-variant / ADT aggregates,
returned constants), each tagged with loop depth and the chain of branch predicates it is control-dependent on.
Bookkeeping (clone, deref, guard acquire/release, unwrap-as-assert, `?` plumbing, formatting, panics) is not an event.
"""
import re, collections
from .core import Obl, calls_in, callee_name, pretty, strip_payload, term_calls, FLAVOURS, SIB, SYNC
from .rules_edge import error_set, model
from .effects import footprint

FLAV_RE = re.compile(r'\b(sync_digraph|sync_ungraph|digraph|ungraph)::')
IGNORE = re.compile(
    r'^(std::clone::Clone::clone|<.* as std::clone::Clone>::clone|std::ops::Deref::deref|std::ops::DerefMut::deref_mut|<.* as std::ops::Deref(Mut)?>::deref(_mut)?|'
    r'std::cell::RefCell::(borrow|borrow_mut|new)|std::sync::RwLock::(read|write|new)|std::convert::(Into::into|From::from|AsRef::as_ref)|<.* as std::convert::(From|Into).*|'
    r'std::ops::Try::branch|std::ops::FromResidual::from_residual|<.* as std::ops::(Try|FromResidual).*|core::fmt::(?!rt::Argument::new_).*|std::fmt::(?!Arguments::new).*|core::panicking::.*|std::rt::.*|'
    r'std::iter::IntoIterator::into_iter|<I as std::iter::IntoIterator>::into_iter|alloc::fmt::format|std::fmt::format|std::boxed::.*|alloc::alloc::.*|std::hint::.*|'
    r'core::intrinsics::.*|std::intrinsics::.*|std::mem::size_of|std::mem::size_of_val|std::option::Option::(unwrap|expect)|std::result::Result::(unwrap|expect)|'
    r'std::string::String::(new|push|push_str)|std::borrow::Borrow::borrow|std::ptr::.*|std::mem::MaybeUninit.*|std::slice::.*into_vec.*)$')


ALPHABET = re.compile(r'^<?&?(F::|gdsl::|std::vec::Vec|std::collections::|HSET|HMAP|\[T\]|PTR|WPTR|CELL|std::cmp::|std::iter::|<std::\S+ as std::iter::|'
                      r'std::option::Option|std::result::Result|std::mem::(swap|replace|take)|serde::|<\S+ as serde::|std::default::Default|<\S+ as std::default::Default>|'
                      r'std::ops::(Index|IndexMut|Fn|FnMut|FnOnce)|<\S+ as std::ops::Index|std::hash::|std::marker::PhantomData|core::fmt::rt::Argument::new_|std::fmt::Arguments::new)')


def unflav(s):
    return FLAV_RE.sub('F::', s)


def normname(name):
    name = unflav(name)
    name = name.replace('std::rc::Rc', 'PTR').replace('std::sync::Arc', 'PTR').replace('std::rc::Weak', 'WPTR').replace('std::sync::Weak', 'WPTR')
    name = name.replace('std::cell::RefCell', 'CELL').replace('std::sync::RwLock', 'CELL')
    name = name.replace('ahash::AHashSet', 'HSET').replace('ahash::HashSet', 'HSET').replace('ahash::AHashMap', 'HMAP').replace('ahash::HashMap', 'HMAP')
    return name


# shared vs exclusive acquisition is not observable by a single-threaded program unless it conflicts with a guard that is still
# alive -- which is what G3 (plain) and LK1 (sync) decide; the sibling comparison does not distinguish the modes
ACQ_NORM = {'borrow': 'acq', 'read': 'acq', 'try_borrow': 'acq', 'try_read': 'acq', 'borrow_mut': 'acq', 'write': 'acq', 'try_borrow_mut': 'acq', 'try_write': 'acq'}


def argsig(t, depth=0):
    """flavour-independent rendering of a provenance term (no block numbers; guard acquisition normalised; payload wrappers dropped)"""
    from .core import unwrap_payload
    t = unwrap_payload(t)
    if not isinstance(t, tuple) or not t:
        return str(t)
    if depth > 4:
        return '~'
    k = t[0]
    if k == 'param':
        return 'P%d' % t[1]
    if k == 'f':
        return '%s.%s' % (argsig(t[1], depth + 1), t[2])
    if k == 'call':
        nm = normname(t[1]).split('::')[-1].rstrip('>')
        nm = ACQ_NORM.get(nm, nm)
        if nm in ('unwrap', 'expect', 'branch', 'clone', 'deref', 'deref_mut', 'into_iter', 'as_ref', 'borrow_') and t[2]:
            return argsig(t[2][0], depth)
        return '%s(%s)' % (nm, ','.join(argsig(a, depth + 1) for a in t[2]))
    if k == 'aggr':
        # zero-sized markers (PhantomData) carry nothing: a slot holding one is not an operand
        ops = [a for a in t[2] if not (isinstance(a, tuple) and a and a[0] == 'aggr' and str(a[1]).endswith('PhantomData') and not a[2])]
        return '%s{%s}' % (normname(t[1]).split('::')[-1], ','.join(argsig(a, depth + 1) for a in ops))
    if k == 'const':
        # promoted constants are named after the function they live in: flavour-normalised like every other path
        return re.sub(r'<.*>::(\w+)::promoted\[\d+\]$', r'\1::promoted', normname(str(t[1])))
    if k == 'join':
        return '|'.join(sorted(set(argsig(a, depth + 1) for a in t[1])))
    if k in ('binop', 'unop'):
        return '%s(%s)' % (t[1], ','.join(argsig(a, depth + 1) for a in (t[2] if k == 'binop' else (t[2],))))
    if k == 'discr':
        return 'discr(%s)' % argsig(t[1], depth + 1)
    if k == 'v':
        return argsig(t[1], depth)
    if k == 'fn':
        return 'fn'
    return k


def _pred_label(F, b, pv, sb):
    """name of the predicate a switch block branches on"""
    t = b['blocks'][sb]['term']
    term = pv.of_operand(t['op'])
    neg = False
    while isinstance(term, tuple) and term and term[0] == 'unop' and term[1] == 'Not':
        neg = not neg
        term = term[2]
    if isinstance(term, tuple) and term and term[0] == 'discr':
        inner = strip_payload(term[1])
        # enum name from the discr statement
        for s in b['blocks'][sb]['stmts']:
            if s['k'] == 'assign' and s['rv']['k'] == 'discr' and s['dst']['l'] == t['op']['pl']['l']:
                return 'discr:' + normname(s['rv'].get('adt', '?')), s['rv'].get('variants', []), neg
        return 'discr:?', [], neg
    if isinstance(term, tuple) and term and term[0] == 'call':
        return 'call:' + normname(term[1]), None, neg
    if isinstance(term, tuple) and term and term[0] == 'binop':
        return 'binop:' + term[1], None, neg
    return 'other', None, neg


def bag(F, b):
    cfg, pv = F.cfg(b), F.prov(b)
    R = cfg.can_return()
    loops = cfg.loops()
    # switch edges usable as context
    sw = []
    for sb in sorted(cfg.reach):
        t = b['blocks'][sb]['term']
        if t['k'] != 'switch' or sb not in R:
            continue
        edges = [(v, tg) for v, tg in t['targets']] + [('else', t['otherwise'])]
        live = [(v, tg) for v, tg in edges if tg in R]
        if len(live) < 2:
            continue  # assert normalisation: the other arms only panic
        name, variants, neg = _pred_label(F, b, pv, sb)
        if name in ('discr:std::option::Option', 'discr:std::result::Result', 'discr:std::ops::ControlFlow') or True:
            pass
        for v, tg in live:
            if variants and isinstance(v, int) and v < len(variants):
                lab = variants[v]
            elif variants and v == 'else':
                named = {x for x, _ in t['targets']}
                rest = [variants[i] for i in range(len(variants)) if i not in named]
                lab = '|'.join(rest)
            else:
                truth = (v != 0) if v != 'else' else True
                if neg:
                    truth = not truth
                lab = 'T' if truth else 'F'
            sw.append((sb, tg, name, lab))
    ctx_cache = {}

    def ctx_of(bi):
        if bi not in ctx_cache:
            c = []
            for sb, tg, name, lab in sw:
                if cfg.edge_dominates(sb, tg, bi):
                    c.append('%s=%s' % (name, lab))
            ctx_cache[bi] = tuple(sorted(set(c)))
        return ctx_cache[bi]
    ev = collections.Counter()
    sig_tys = [F.types[b['locals'][i]]['s'] for i in range(0, b['argc'] + 1)]
    fmt_relevant = any(('std::string::String' in x) or ('std::fmt::Formatter' in x) or ('std::fmt::Error' in x) for x in sig_tys)
    for bi, bb in enumerate(b['blocks']):
        if bb['cleanup'] or bi not in R:
            continue
        depth = sum(1 for body in loops.values() if bi in body)
        for s in bb['stmts']:
            if s['k'] != 'assign':
                continue
            rv = s['rv']
            if rv['k'] == 'aggr' and rv['ak'].startswith('adt:'):
                ak = normname(rv['ak'][4:])
                if ak.startswith('error::Error') or ak.startswith('std::marker::PhantomData') or ak.startswith('std::mem::') or ak.startswith('std::ptr::'):
                    continue
                if ak in ('std::option::Option::Some', 'std::result::Result::Ok', 'std::result::Result::Err', 'std::cmp::Reverse::Reverse') and False:
                    continue
                if len(rv['ops']) >= 2:
                    # a field-by-field copy `T(x.0.clone(), x.1.clone(), ..)` is `x.clone()` (clone itself is transparent here)
                    ots = [strip_payload(pv.of_operand(o)) for o in rv['ops']]
                    if all(isinstance(o, tuple) and len(o) == 3 and o[0] == 'f' and o[2] == str(i) for i, o in enumerate(ots)) and len({o[1] for o in ots}) == 1:
                        continue
                    # `Self { field: v, ..self }` in a by-value setter is a field store (what is stored is decided by TR2 / OPT)
                    if b['argc'] >= 1 and F.types[b['locals'][1]].get('p') == rv['ak'][4:].rsplit('::', 1)[0] and any(o == ('f', ('param', 1), str(i)) for i, o in enumerate(ots)):
                        continue
                # what is wrapped / stored: `Ok(x)` with x taken from another list, or swapped endpoints, is another program
                asig = tuple(argsig(pv.of_operand(o)) for o in rv['ops']) if rv['ops'] and (ak in ('std::option::Option::Some', 'std::result::Result::Ok') or ak.startswith('F::')) else ()   # (Err payloads: compared as error sets, SIB-SEM)
                ev[('AGGR', ak, depth, ctx_of(bi), asig)] += 1
            elif s['dst']['l'] == 0 and not s['dst']['p'] and rv['k'] == 'use' and rv['ops'][0]['k'] == 'const':
                ev[('RET', rv['ops'][0]['v'], depth, ctx_of(bi), ())] += 1
            elif rv['k'] == 'binop' and rv['op'] in ('Add', 'Sub', 'AddWithOverflow', 'SubWithOverflow', 'Mul', 'MulWithOverflow', 'Eq', 'Ne', 'Lt', 'Le', 'Gt', 'Ge'):
                ev[('BINOP', rv['op'].replace('WithOverflow', ''), depth, (), ())] += 1
        t = bb['term']
        if t['k'] == 'call':
            c = t['callee']
            r = t.get('res', '')
            if IGNORE.match(c) or (r and IGNORE.match(r)):
                continue
            if t.get('rk') == 'item' and r:
                name = r
            elif t.get('rk') == 'indirect':
                name = 'INDIRECT'
            else:
                name = c
            if name.startswith('<indirect'):
                name = 'INDIRECT'
            nn = normname(name)
            # non-blocking acquisition: same event in both flavours (shared / exclusive kept apart)
            nn = {'CELL::try_borrow': 'CELL::try_acq_sh', 'CELL::try_read': 'CELL::try_acq_sh', 'CELL::try_borrow_mut': 'CELL::try_acq_ex', 'CELL::try_write': 'CELL::try_acq_ex'}.get(nn, nn)
            if (nn.startswith('core::fmt::rt::Argument::new_') or nn.startswith('std::fmt::Arguments::new')) and not fmt_relevant:
                continue   # formatting matters where text is the function's product (String / Formatter), not in diagnostics
            # closed event alphabet: crate-local calls, user code (trait calls on K/N/E, callbacks) and a fixed table of std
            # collection / pointer / comparison / iterator / serde operations; any other std call (printing, env, strings) is not an event
            if not (t.get('local') or t.get('rk') in ('unresolved', 'virtual', 'indirect') or nn == 'INDIRECT' or ALPHABET.match(nn)):
                continue
            # arguments by provenance (which value flows in), so that `insert(key(v))` and `insert(key(node))` differ
            sig = tuple(argsig(pv.of_operand(a)) for a in t['args'])
            if nn == 'std::iter::once':
                continue      # the one-element source of an `extend`: accounted for at the extend
            if nn.endswith('::extend') and len(sig) == 2 and sig[1].startswith('once(') and sig[1].endswith(')'):
                # `set.extend(once(k))` adds exactly k: the same event as `set.insert(k)`
                m_ = re.match(r'^<(.*) as std::iter::Extend<.*>>::extend$', nn)
                nn = (m_.group(1) if m_ else nn.rsplit('::', 1)[0]) + '::insert'
                ot_ = strip_payload(pv.of_operand(t['args'][1]))
                sig = (sig[0], argsig(ot_[2][0]) if isinstance(ot_, tuple) and ot_ and ot_[0] == 'call' and ot_[2] else sig[1][5:-1])
            # capacity is not observable: with_capacity(n) is new(), reserve / shrink are nothing, and a length that is read only
            # to size a buffer is not an event either
            last_ = nn.split('::')[-1]
            if last_ in ('reserve', 'reserve_exact', 'shrink_to_fit', 'shrink_to') and nn.startswith('std::'):
                continue
            if last_ == 'with_capacity' and nn.startswith('std::'):
                nn, sig = nn.rsplit('::', 1)[0] + '::new', ()
            if last_ in ('len', 'len_outbound', 'len_inbound', 'size_hint', 'capacity') and not t['dst']['p'] and _only_sizes_a_buffer(b, t['dst']['l']):
                continue
            ev[('CALL', nn, depth, ctx_of(bi), sig)] += 1
    return ev


def _only_sizes_a_buffer(b, d):
    """the value in local d flows (through plain moves / copies) only into with_capacity / reserve calls"""
    al = {d}
    ch = True
    while ch:
        ch = False
        for bb in b['blocks']:
            for s_ in bb['stmts']:
                if s_['k'] == 'assign' and not s_['dst']['p'] and s_['dst']['l'] not in al and s_['rv']['k'] == 'use' and s_['rv']['ops'] and \
                        s_['rv']['ops'][0].get('k') in ('move', 'copy') and s_['rv']['ops'][0]['pl']['l'] in al and not s_['rv']['ops'][0]['pl']['p']:
                    al.add(s_['dst']['l']); ch = True
    used = False
    for bb in b['blocks']:
        if bb['cleanup']:
            continue
        for s_ in bb['stmts']:
            if s_['k'] != 'assign':
                continue
            if s_['rv']['k'] == 'use' and s_['dst']['l'] in al and not s_['dst']['p']:
                continue
            if any(_mentions(s_['rv'], x) for x in al):
                return False
        t = bb['term']
        if t['k'] == 'call':
            if any(a.get('k') in ('move', 'copy') and a['pl']['l'] in al for a in t['args']):
                if t['callee'].split('::')[-1] not in ('with_capacity', 'reserve', 'reserve_exact'):
                    return False
                used = True
        elif any(_mentions(t, x) for x in al):
            return False
    return used


def _mentions(o, x):
    if isinstance(o, dict):
        if o.get('l') == x and 'p' in o:
            return True
        return any(_mentions(v, x) for v in o.values())
    if isinstance(o, list):
        return any(_mentions(v, x) for v in o)
    return False


MUT_POOL = {'push': 'APPEND', 'push_back': 'APPEND', 'push_str': 'APPEND', 'extend': 'APPEND', 'append': 'APPEND', 'write_fmt': 'APPEND', 'write_str': 'APPEND', 'write_char': 'APPEND',
            'extend_from_slice': 'APPEND', 'push_front': 'PREPEND', 'insert': 'INSERT', 'remove': 'REMOVE', 'swap_remove': 'SWAP_REMOVE', 'clear': 'CLEAR', 'pop': 'POP',
            'pop_front': 'POP_FRONT', 'pop_back': 'POP_BACK', 'pop_first': 'POP_FIRST', 'pop_last': 'POP_LAST', 'truncate': 'TRUNCATE', 'retain': 'RETAIN', 'drain': 'DRAIN',
            'reverse': 'REVERSE', 'sort': 'SORT', 'sort_by': 'SORT', 'sort_by_key': 'SORT', 'sort_unstable': 'SORT_U', 'sort_unstable_by': 'SORT_U', 'sort_unstable_by_key': 'SORT_U',
            'swap': 'SWAP', 'take': 'TAKE', 'replace': 'REPLACE', 'dedup': 'DEDUP', 'dedup_by_key': 'DEDUP', 'split_off': 'SPLIT_OFF', 'rotate_left': 'ROTATE', 'rotate_right': 'ROTATE'}
SIG_TRANSPARENT = {'unwrap', 'expect', 'branch', 'clone', 'deref', 'deref_mut', 'into_iter', 'as_ref', 'as_mut', 'borrow_', 'ok_or', 'ok_or_else', 'map_err', 'ok', 'cloned', 'copied',
                   'from_residual', 'iter', 'iter_mut', 'to_owned', 'unwrap_or_default', 'into', 'from', 'as_slice', 'as_str', 'by_ref', 'peekable', 'enumerate'}


def nsig(t, depth=0):
    """argsig with Option/Result/iterator plumbing made transparent (used to compare what two differently styled copies operate on)"""
    from .core import unwrap_payload
    t = unwrap_payload(t)
    if not isinstance(t, tuple) or not t:
        return str(t)
    if depth > 4:
        return '~'
    k = t[0]
    if k == 'param':
        return 'P%d' % t[1]
    if k == 'f':
        return '%s.%s' % (nsig(t[1], depth + 1), t[2])
    if k == 'call':
        nm = normname(t[1]).split('::')[-1].rstrip('>')
        nm = ACQ_NORM.get(nm, nm)
        if nm in SIG_TRANSPARENT and t[2]:
            return nsig(t[2][0], depth)
        return '%s(%s)' % (nm, ','.join(nsig(a, depth + 1) for a in t[2]))
    if k == 'aggr':
        nm = normname(t[1]).split('::')[-1]
        if nm in ('Some', 'Ok') and len(t[2]) == 1:
            return nsig(t[2][0], depth)
        return '%s{%s}' % (nm, ','.join(nsig(a, depth + 1) for a in t[2]))
    if k == 'const':
        return str(t[1])
    if k == 'join':
        return '|'.join(sorted(set(nsig(a, depth + 1) for a in t[1])))
    if k in ('binop', 'unop'):
        return '%s(%s)' % (t[1], ','.join(nsig(a, depth + 1) for a in (t[2] if k == 'binop' else (t[2],))))
    if k == 'discr':
        return 'discr(%s)' % nsig(t[1], depth + 1)
    if k == 'v':
        return nsig(t[1], depth)
    if k == 'fn':
        return 'fn'
    return k


def _is_accessor(F, nn_raw):
    last = nn_raw.split('::')[-1].rstrip('>')
    return (F._summ is not None and nn_raw in F._summ) or last in ('key', 'value', 'upgrade', 'downgrade', 'source', 'target', 'clone', 'deref', 'deref_mut', 'borrow', 'as_ref',
                                                                    'into_iter', 'default', 'call', 'call_mut', 'call_once', 'into', 'from', 'to_string', 'fmt', 'hash')


def sem_bag(F, b, seen=None, env=None, owner_public=None):
    """style-independent summary of a function's *effects on state it does not own*: mutating std operations (pooled by kind, literal
    arguments kept) whose receiver is reached from a parameter, crate-level callees that themselves have such effects (by name), and
    crate aggregates -- closures merged, presence not multiplicity (a site count is a matter of style)"""
    top = seen is None
    seen = seen if seen is not None else set()
    ev = set()
    if b['q'] in seen:
        return ev
    seen.add(b['q'])
    cfg, pv = F.cfg(b), F.prov(b)
    R = cfg.can_return()
    iter_adts = {im['self_q'] for im in F.impls if im['trait'] == 'std::iter::Iterator'}
    if b['kind'] == 'Closure':
        pub_ = bool(owner_public)
    else:
        fdef_ = F.fns.get(b['q'])
        pub_ = fdef_ is not None and (fdef_.get('vis') == 'Public' or fdef_.get('reach'))

    def _resolve(sig_):
        # inside a closure `P1.k` is the k-th captured value
        if b['kind'] == 'Closure':
            m_ = re.match(r'^(acq(?:_mut)?\()?P1\.(\d+)(.*)$', sig_)
            if m_ and env is not None and int(m_.group(2)) < len(env):
                return (m_.group(1) or '') + env[int(m_.group(2))] + m_.group(3)
            if re.match(r'^(acq(?:_mut)?\()?P\d', sig_):
                return 'arg:' + sig_      # a closure's own arguments are not state of the enclosing function
        return sig_
    for bi, bb in enumerate(b['blocks']):
        if bb['cleanup'] or bi not in R:
            continue
        for s in bb['stmts']:
            if s['k'] != 'assign':
                continue
            rv = s['rv']
            if rv['k'] == 'aggr' and rv['ak'].startswith('adt:'):
                raw = rv['ak'][4:]
                ak = normname(raw)
                if not ak.startswith('F::') or raw.rsplit('::', 1)[0] in iter_adts or 'error::Error' in ak:
                    continue
                if ak in ('F::node::Node::Node', 'F::node::adjacent::WeakNode::WeakNode'):
                    continue      # a handle to an existing allocation (ENC-d: built only by new / clone / upgrade), not a new object
                if len(rv['ops']) >= 2:
                    ots = [strip_payload(pv.of_operand(o)) for o in rv['ops']]
                    if all(isinstance(o, tuple) and len(o) == 3 and o[0] == 'f' and o[2] == str(i) for i, o in enumerate(ots)) and len({o[1] for o in ots}) == 1:
                        continue
                    # `Self { field: v, ..self }` in a by-value setter is a field store, not a new object
                    if b['argc'] >= 1 and F.types[b['locals'][1]].get('p') == raw.rsplit('::', 1)[0] and any(o == ('f', ('param', 1), str(i)) for i, o in enumerate(ots)):
                        continue
                ev.add(('A', ak))
            elif rv['k'] == 'aggr' and rv['ak'].startswith('closure:'):
                cb = F.bodies.get(rv['ak'][len('closure:'):])
                if cb is not None:
                    # what the closure captures, in this function's terms (its environment is its parameter 1)
                    caps = [_resolve(nsig(pv.of_operand(o))) for o in rv['ops']]
                    ev |= sem_bag(F, cb, seen, caps, pub_)
        t = bb['term']
        if t['k'] != 'call':
            continue
        c = t['callee']
        r = t.get('res', '')
        name = r if (t.get('rk') == 'item' and r) else c
        nn = normname(name)
        last = nn.split('::')[-1].rstrip('>')
        if t.get('local') and r in F.bodies:
            if r not in seen:
                sub = sem_bag(F, F.bodies[r], set(seen))
                fdef = F.fns.get(r)
                public = fdef is not None and (fdef.get('vis') == 'Public' or fdef.get('reach'))
                if public:
                    if any(e[0] == 'M' for e in sub):
                        ev.add(('C', nn))
                    # which crate values get built does not depend on whether a public constructor-like callee (`reverse()`) is
                    # called or spelled out
                    if not F.bodies[r].get('impl_trait'):      # (not through Iterator::next: whether a loop or std drives it is style)
                        ev |= {e for e in sub if e[0] == 'A'}
                else:
                    ev |= sub       # a private callee is part of this function: its name is nobody's business
        elif (STD_ONLY.match(nn) or nn.startswith('std::string::')) and last in MUT_POOL and t['args']:
            recv = _resolve(nsig(pv.of_operand(t['args'][0])))
            # state the function does not own: self (and what it captures), and the parameters of a public function; the extra
            # parameters of a private worker are its caller's locals
            if re.match(r'^(P1\b|acq(_mut)?\(P1\b)', recv) or (pub_ and re.match(r'^(P\d+|acq(_mut)?\(P\d+)', recv)):
                cst = tuple(str(pv.of_operand(a)[1]) for a in t['args'][1:] if a.get('k') == 'const')
                ev.add(('M', MUT_POOL[last], cst))
    return ev


def flat_bag(F, b):
    """the events of the strict bag without control context and nesting depth, plumbing dropped and argument provenance rendered
    through nsig: equal flat bags = same operations on the same things, only the control structure around them differs"""
    ev = collections.Counter()
    cfg, pv = F.cfg(b), F.prov(b)
    R = cfg.can_return()
    for bi, bb in enumerate(b['blocks']):
        if bb['cleanup'] or bi not in R:
            continue
        for s in bb['stmts']:
            if s['k'] == 'assign' and s['rv']['k'] == 'aggr' and s['rv']['ak'].startswith('adt:'):
                ak = normname(s['rv']['ak'][4:])
                if ak.startswith('F::') and 'error::Error' not in ak:
                    ev[('AGGR', ak, tuple(nsig(pv.of_operand(o)) for o in s['rv']['ops']))] += 1
        t = bb['term']
        if t['k'] != 'call':
            continue
        c = t['callee']
        r = t.get('res', '')
        if IGNORE.match(c) or (r and IGNORE.match(r)):
            continue
        name = r if (t.get('rk') == 'item' and r) else c
        nn = normname(name)
        if PLUMBING.match(nn) or nn.split('::')[-1].rstrip('>') in SIG_TRANSPARENT:
            continue
        if not (t.get('local') or t.get('rk') in ('unresolved', 'virtual', 'indirect') or ALPHABET.match(nn)):
            continue
        ev[('CALL', 'INDIRECT' if t.get('rk') == 'indirect' else nn, tuple(nsig(pv.of_operand(a)) for a in t['args']))] += 1
    return ev


class _TTUnknown(Exception):
    pass


def tt_run(F, b, assign, collect=None):
    """evaluate a small loop-free function whose result is a bool (or an opaque value) under an assignment of its opaque atoms
    (calls / comparisons rendered by nsig -> bool).  With `collect` (a set) unknown atoms are recorded and taken as False."""
    pv = F.prov(b)

    def atom(key):
        if collect is not None:
            collect.add(key)
        if key in assign:
            return assign[key]
        if collect is not None:
            return False
        raise _TTUnknown(str(key))

    def ev(t):
        t = strip_payload(t)
        if t in (('const', 'true'), ('const', 'const true')):
            return True
        if t in (('const', 'false'), ('const', 'const false')):
            return False
        if isinstance(t, tuple) and t:
            if t[0] == 'unop' and t[1] == 'Not':
                return not ev(t[2])
            if t[0] == 'binop' and t[1] in ('Eq', 'Ne', 'Lt', 'Le', 'Gt', 'Ge'):
                a, c = nsig(t[2][0]), nsig(t[2][1])
                if t[1] in ('Eq', 'Ne'):
                    a, c = sorted((a, c))
                    v = atom(('Eq', a, c))
                    return v if t[1] == 'Eq' else not v
                if t[1] in ('Gt', 'Ge'):
                    a, c = c, a
                    op = {'Gt': 'Lt', 'Ge': 'Le'}[t[1]]
                else:
                    op = t[1]
                return atom((op, a, c))
            if t[0] == 'call':
                nm = normname(t[1])
                last = nm.split('::')[-1].rstrip('>')
                if last in ('ne',) and len(t[2]) == 2:
                    return not atom(('call', nm[:-2] + 'eq', tuple(nsig(x) for x in t[2])))
                return atom(('call', nm, tuple(nsig(x) for x in t[2])))
        raise _TTUnknown('term %s' % (t[0] if isinstance(t, tuple) and t else t))
    bi, ret, steps = 0, None, 0
    have = False
    while steps < 120:
        steps += 1
        bb = b['blocks'][bi]
        for s_ in bb['stmts']:
            if s_['k'] == 'assign' and s_['dst'] == {'l': 0, 'p': []}:
                rv = s_['rv']
                if rv['k'] == 'use':
                    ret = ev(pv.of_operand(rv['ops'][0]))
                elif rv['k'] == 'binop':
                    ret = ev(('binop', rv['op'], tuple(pv.of_operand(o) for o in rv['ops'])))
                elif rv['k'] == 'unop':
                    ret = ev(('unop', rv['op'], pv.of_operand(rv['ops'][0])))
                else:
                    raise _TTUnknown('result by ' + rv['k'])
                have = True
        t = bb['term']
        if t['k'] == 'return':
            if not have:
                raise _TTUnknown('no result')
            return ret
        if t['k'] == 'call':
            if t['dst'] == {'l': 0, 'p': []}:
                ret = ev(pv.of_call(t, bi, 0))
                have = True
            bi = t.get('target', -1)
        elif t['k'] in ('goto', 'drop', 'assert'):
            bi = t['target']
        elif t['k'] == 'switch':
            opt = strip_payload(pv.of_operand(t['op']))
            if isinstance(opt, tuple) and opt and opt[0] == 'discr':
                raise _TTUnknown('enum switch')
            v = ev(opt)
            tg = [x for val, x in t['targets'] if val == (1 if v else 0)]
            bi = tg[0] if tg else t['otherwise']
        else:
            raise _TTUnknown('terminator ' + t['k'])
        if bi < 0:
            raise _TTUnknown('diverges')
    raise _TTUnknown('too long')


def tt_compare(F, pa, sy, max_atoms=7):
    """None when the pair is not a small loop-free bool function (or uses something the evaluator does not model); else
    (equal?, witness assignment)"""
    import itertools
    for b in (pa, sy):
        if b['kind'] == 'Closure' or F.types[b['locals'][0]].get('s') != 'bool' or F.cfg(b).loops() or len([1 for bb in b['blocks'] if not bb['cleanup']]) > 40:
            return None
    atoms = set()
    try:
        # collect atoms by exploring: start with everything False, then flip discovered atoms
        seen_assign = set()
        work = [()]
        while work and len(atoms) <= max_atoms:
            tr = work.pop()
            a = {k: True for k in tr}
            got = set()
            for b in (pa, sy):
                tt_run(F, b, a, got)
            new = got - atoms
            atoms |= got
            for k in new:
                nt = tuple(sorted(set(tr) | {k}, key=str))
                if nt not in seen_assign:
                    seen_assign.add(nt)
                    work.append(nt)
        if len(atoms) > max_atoms:
            return None
        # a verdict only when both copies are built from the same comparisons (else the difference is one of vocabulary, judged elsewhere)
        own = []
        for b in (pa, sy):
            mine = set()
            for vals in itertools.product((False, True), repeat=len(atoms)):
                tt_run(F, b, dict(zip(sorted(atoms, key=str), vals)), mine)
            own.append(mine)
        if own[0] != own[1]:
            return None
        al = sorted(atoms, key=str)
        for vals in itertools.product((False, True), repeat=len(al)):
            a = dict(zip(al, vals))
            if tt_run(F, pa, a) != tt_run(F, sy, a):
                return False, {str(k): v for k, v in a.items()}
        return True, None
    except _TTUnknown:
        return None


def pairs(F):
    """(plain body, sync body) for every q present in both flavours of a pair; plus unpaired lists"""
    out, only_plain, only_sync = [], [], []
    for a, s in SIB.items():
        qa = {unflav(q): b for q, b in F.bodies.items() if F.flavour(b) == a}
        qs = {unflav(q): b for q, b in F.bodies.items() if F.flavour(b) == s}
        for k in sorted(qa):
            if k in qs:
                out.append((qa[k], qs[k]))
            else:
                only_plain.append(qa[k]['q'])
        for k in sorted(qs):
            if k not in qa:
                only_sync.append(qs[k]['q'])
    return out, only_plain, only_sync


PLUMBING = re.compile(r'^(std::iter::Iterator::(?!rev$|skip$|take$|step_by$|skip_while$|take_while$|rposition$|rfind$|last$|max\w*$|min\w*$|sum$|product$|nth\w*$)\w+|'
                      r'<std::[^>]* as std::iter::Iterator>::\w+|<std::[^>]* as std::iter::DoubleEndedIterator>::\w+|std::option::Option::\w+|std::result::Result::\w+|'
                      r'\[T\]::iter|std::vec::Vec::iter|<&std::vec::Vec as std::iter::IntoIterator>::into_iter|<std::vec::Vec as std::iter::IntoIterator>::into_iter)$')


STD_ONLY = re.compile(r'^(std::vec::|std::collections::|HSET|HMAP|<HSET as |<HMAP as |std::ops::Fn(Mut|Once)?::call(_mut|_once)?$|\[T\]::|std::iter::|<&?std::|<I as std::iter::|std::option::|std::result::|std::mem::(swap|replace|take)$|std::cmp::(min|max)$)')


# std operations whose presence/absence on one side only is a matter of idiom (read-only queries, cursor-style consumption, iterator
# adaptors that keep order and multiplicity); mutating or order-changing ones (truncate, drain, retain, sort, swap_remove, ...) are not
IDIOM_OPS = {'contains', 'contains_key', 'get', 'len', 'is_empty', 'iter', 'into_iter', 'next', 'position', 'enumerate', 'map', 'cloned', 'copied', 'collect',
             'pop', 'push', 'extend', 'append', 'reverse', 'rev', 'last', 'first', 'sum', 'ok_or', 'ok_or_else', 'unwrap_or', 'is_some', 'is_none', 'is_ok', 'is_err', 'as_ref', 'values', 'keys',
             'any', 'all', 'find', 'for_each', 'count', 'index', 'skip', 'eq', 'ne', 'push_back', 'push_front', 'pop_back', 'pop_front', 'call', 'call_mut', 'call_once', 'split_last', 'split_first', 'saturating_sub', 'with_capacity', 'new', 'default', 'and_then', 'ok', 'filter_map', 'flatten', 'zip', 'chain', 'by_ref', 'peekable', 'once', 'from_iter', 'from', 'unwrap_or_else'}


ITER_PLUMBING = {'iter', 'into_iter', 'next', 'map', 'cloned', 'copied', 'collect', 'enumerate', 'sum', 'for_each', 'by_ref', 'values', 'keys', 'as_ref', 'len', 'with_capacity', 'new'}


def shape_differs(ea, es):
    def shape(bag_):
        c_ = collections.Counter()
        for (k_, n_, d_, cx_, sg_), cnt in bag_.items():
            c_[(k_, n_, d_, cx_)] += cnt
        return c_
    return shape(ea) != shape(es)


def cdiff_has_semantic(ea, es):
    """do the strict bags differ in anything but std calls and arithmetic (crate-local calls, user code, crate aggregates, returned constants)?"""
    def sem(bag_):
        out = collections.Counter()
        for (kind, name, depth, cx, sig), n in bag_.items():
            if kind == 'CALL' and (STD_ONLY.match(name) or PLUMBING.match(name)):
                continue
            if kind == 'BINOP':
                continue
            if kind == 'AGGR' and (name.startswith('std::') or name.startswith('closure:')):
                continue
            out[(kind, name)] += n
        return out
    return sem(ea) != sem(es)


def coarse(F, b, seen=None):
    """control-structure-free abstraction: the *set* of (kind, name) of primitive events reachable from b, with closures and
    crate-local callees inlined transitively and iterator / Option / Result plumbing dropped"""
    seen = seen if seen is not None else set()
    out = set()
    if b['q'] in seen:
        return out
    seen.add(b['q'])
    local_bodies = {}
    fn_items = []
    for bi, t in calls_in(b):
        r = t.get('res', '')
        if t.get('local') and r in F.bodies:
            local_bodies[normname(r)] = F.bodies[r]
        if not t.get('local'):
            # a crate iterator handed to std (`extend(n.iter_out().map(..))`, `collect`, ..) is stepped by std: its next() runs
            tys = list(t.get('gargs', []))
            for a in t['args']:
                if a.get('k') in ('move', 'copy'):
                    tys.append(b['locals'][a['pl']['l']])
            seen_t = set()
            for ti in tys:
                for ty in F.ty_walk(ti, seen_t):
                    if ty['k'] == 'adt' and ty.get('local'):
                        nq = '<%s as std::iter::Iterator>::next' % ty['p']
                        if nq in F.bodies and F.bodies[nq]['q'] != b['q']:
                            fn_items.append(F.bodies[nq])
        for a in t['args']:
            # a crate function passed by name (`collect_nodes(Node::is_root)`) is called by whoever receives it
            if a.get('k') == 'const' and a.get('fn') and a['fn'] in F.bodies:
                fn_items.append(F.bodies[a['fn']])
    for (kind, name, depth, cx, sig), n in bag(F, b).items():
        if kind == 'CALL' and PLUMBING.match(name):
            continue
        if kind == 'AGGR' and (name.startswith('std::option::Option::') or name.startswith('std::result::Result::') or name.startswith('std::ops::ControlFlow::') or name.startswith('closure:')):
            continue
        if kind in ('BINOP', 'RET'):
            continue
        if kind == 'AGGR' and name.startswith('F::') and name.count('::') >= 2:
            # building a crate iterator value (IterOut { node, position: 0 }) has no effect of its own; its next() is what counts
            adt = name.rsplit('::', 1)[0]
            if any(('<%s%s as std::iter::Iterator>::next' % (fl_, adt[1:])) in F.bodies for fl_ in ('digraph', 'sync_digraph', 'ungraph', 'sync_ungraph')):
                continue
        if kind == 'CALL' and name in local_bodies:
            out |= coarse(F, local_bodies[name], seen)
            continue
        out.add((kind, name))
    for fb in fn_items:
        out |= coarse(F, fb, seen)
    for bb in b['blocks']:
        if bb['cleanup']:
            continue
        for s in bb['stmts']:
            if s['k'] == 'assign' and s['rv']['k'] == 'aggr' and s['rv']['ak'].startswith('closure:'):
                cb = F.bodies.get(s['rv']['ak'][len('closure:'):])
                if cb is not None:
                    out |= coarse(F, cb, seen)
    return out


def rule_coverage(ctx):
    """function -> [obligations, all discharged] over the dedicated rules of every other property (SIB is the net for what they do not look at)"""
    if 'rule_coverage' in ctx.cache:
        return ctx.cache['rule_coverage']
    from . import props
    cov = {}
    # a recorded finding (exact key) is already reported by its own property; it does not make the function
    # 'unclean' for the purpose of tolerating an idiom difference between the copies
    import os
    from .main import load_known, VERIF
    known, _ = load_known(os.path.join(VERIF, 'known_findings.txt'))
    for pid, spec in props.PROPS.items():
        if pid in ('C15', 'C14', 'C16'):
            continue
        kn = known.get(pid, {})
        for name, fn in spec['rules']:
            try:
                obs = fn(ctx)
            except Exception:
                continue
            for o in obs:
                c = cov.setdefault(o['func'], [0, True])
                c[0] += 1
                c[1] = c[1] and (o['ok'] or o.key in kn)
    ctx.cache['rule_coverage'] = cov
    return cov


def sib(ctx):
    F = ctx.F
    out = []
    ps, op, os_ = pairs(F)
    cov = None
    tolerated = []
    for pa, sy in ps:
        ea, es = bag(F, pa), bag(F, sy)
        if ea == es:
            ok = True
            why = '%d events agree' % sum(ea.values())
            if pa['kind'] != 'Closure':
                sa_, ss_ = sem_bag(F, pa), sem_bag(F, sy)
                if sa_ != ss_:
                    ok = False
                    why = 'effects differ -- plain-only: %s | sync-only: %s' % ('; '.join(' '.join(str(x) for x in k) for k in sorted(sa_ - ss_)[:4]),
                                                                                 '; '.join(' '.join(str(x) for x in k) for k in sorted(ss_ - sa_)[:4]))
        else:
            ok = False
            d1, d2 = ea - es, es - ea
            # a structural rewrite of one copy is tolerated when both copies are covered by, and pass, dedicated semantic rules
            # and involve the same operations (closures inlined, iterator/Option/Result plumbing ignored)
            owner_a = re.sub(r'(::\{closure#\d+\})+$', '', pa['q'])
            owner_s = re.sub(r'(::\{closure#\d+\})+$', '', sy['q'])
            cdiff = coarse(F, F.bodies.get(owner_a, pa)) ^ coarse(F, F.bodies.get(owner_s, sy))
            # the copies may differ in which std collection / iterator operations they use (idiom), never in crate-local calls,
            # user-code calls, crate types or enum variants
            idiom_only = all((k == 'CALL' and STD_ONLY.match(n) and n.split('::')[-1].rstrip('>') in IDIOM_OPS) or (k == 'AGGR' and n.startswith('std::ops::Range')) for k, n in cdiff)
            # pure iteration plumbing (a loop written as an iterator chain or the other way round) is harmless in any function
            plumbing_only = all(k == 'CALL' and STD_ONLY.match(n) and n.split('::')[-1].rstrip('>') in ITER_PLUMBING for k, n in cdiff)
            # small loop-free boolean functions (eq, is_*, comparisons): decided exactly by their truth tables over the calls they make
            tt = tt_compare(F, pa, sy)
            if tt is not None and tt[0] is False:
                out.append(Obl('SIB', unflav(pa['q']).replace('F::', '%s|%s::' % (F.flavour(pa), F.flavour(sy)), 1), sy['span'], 'same program up to Rc/Arc, RefCell/RwLock', False,
                               'the two copies compute different boolean functions of the same comparisons, e.g. under %s' % tt[1]))
                continue
            # whatever the style, the two copies must have the same effects (closures merged)
            sa_, ss_ = sem_bag(F, F.bodies.get(owner_a, pa)), sem_bag(F, F.bodies.get(owner_s, sy))
            if sa_ != ss_:
                why = 'effects differ -- plain-only: %s | sync-only: %s' % ('; '.join(' '.join(str(x) for x in k) for k in sorted(sa_ - ss_)[:4]),
                                                                             '; '.join(' '.join(str(x) for x in k) for k in sorted(ss_ - sa_)[:4]))
                out.append(Obl('SIB', unflav(pa['q']).replace('F::', '%s|%s::' % (F.flavour(pa), F.flavour(sy)), 1), sy['span'], 'same program up to Rc/Arc, RefCell/RwLock', False, why))
                continue
            if cdiff and plumbing_only and not cdiff_has_semantic(ea, es) and shape_differs(ea, es):
                tolerated.append('%s (iteration plumbing only)' % sy['q'])
                out.append(Obl('SIB', unflav(pa['q']).replace('F::', '%s|%s::' % (F.flavour(pa), F.flavour(sy)), 1), sy['span'], 'same program up to Rc/Arc, RefCell/RwLock', True,
                               'loop vs iterator-chain form only (%s); same crate-level operations and constants' % (', '.join(sorted(n.split('::')[-1] for k, n in cdiff)) or 'shape')))
                continue
            # same shape, different operands (the bags agree once the argument provenance is projected out) is never an idiom
            def shape(bag_):
                c_ = collections.Counter()
                for (k_, n_, d_, cx_, sg_), cnt in bag_.items():
                    c_[(k_, n_, d_, cx_)] += cnt
                return c_
            # (operands that are closures are excluded: what a closure captures changes when a helper is extracted around it)
            operands_only = shape(ea) == shape(es) and any(not any('{closure' in str(x) for x in k_[4]) for k_ in list(d1) + list(d2))
            # with an empty coarse difference the copies use the same operations; then they must also use them under the same
            # conditions (which outcome of which test guards which event) -- `a && b` and `a || b` are not a matter of style
            def cond_bag(bag_):
                c_ = collections.Counter()
                for (k_, n_, d_, cx_, sg_), cnt in bag_.items():
                    if k_ == 'BINOP' or (k_ == 'CALL' and PLUMBING.match(n_)) or (k_ == 'AGGR' and n_.startswith('std::')):
                        continue
                    cx2 = set()
                    for lab in cx_:
                        m_ = re.match(r'^discr:std::(option::Option|result::Result|ops::ControlFlow)=(\w+)$', lab)
                        if m_:
                            cx2.add('OUTCOME=' + ('ok' if m_.group(2) in ('Some', 'Ok', 'Continue') else 'fail'))
                        elif lab.startswith('call:std::option::Option::is_') or lab.startswith('call:std::result::Result::is_'):
                            pos = lab.split('::')[-1].split('=')
                            good = (pos[0] in ('is_some', 'is_ok')) == (pos[1] == 'T')
                            cx2.add('OUTCOME=' + ('ok' if good else 'fail'))
                        else:
                            cx2.add(lab)
                    c_[(k_, n_, tuple(sorted(cx2)))] += cnt
                return c_
            same_conditions = True
            if idiom_only and not operands_only and same_conditions:
                cov = cov if cov is not None else rule_coverage(ctx)
                ca, cs = cov.get(owner_a), cov.get(owner_s)
                if ca and cs and ca[0] > 0 and cs[0] > 0 and ca[1] and cs[1]:
                    tolerated.append('%s (%d/%d dedicated obligations pass)' % (sy['q'], ca[0], cs[0]))
                    out.append(Obl('SIB', unflav(pa['q']).replace('F::', '%s|%s::' % (F.flavour(pa), F.flavour(sy)), 1), sy['span'], 'same program up to Rc/Arc, RefCell/RwLock', True,
                                   'control structure / std idiom differs (%s), same crate-level operations; both copies pass their dedicated rules (%d / %d obligations)' % (', '.join(sorted(n.split('::')[-1] for k, n in cdiff)) or 'shape only', ca[0], cs[0])))
                    continue
            why = 'plain-only: %s | sync-only: %s' % ('; '.join('%s %s(%s) d%d [%s] x%d' % (k[0], k[1], ', '.join(k[4]), k[2], ','.join(k[3]), n) for k, n in list(d1.items())[:4]),
                                                       '; '.join('%s %s(%s) d%d [%s] x%d' % (k[0], k[1], ', '.join(k[4]), k[2], ','.join(k[3]), n) for k, n in list(d2.items())[:4]))
        out.append(Obl('SIB', unflav(pa['q']).replace('F::', '%s|%s::' % (F.flavour(pa), F.flavour(sy)), 1), sy['span'], 'same program up to Rc/Arc, RefCell/RwLock', ok, why))
    # signatures of paired functions: same parameter and result types up to flavour / pointer / cell / guard names
    def tysig(b_):
        def norm(t_):
            t_ = normname(t_)
            t_ = re.sub(r'std::cell::Ref(Mut)?\b', 'GUARD', t_)
            t_ = re.sub(r'std::sync::RwLock(Read|Write)Guard\b', 'GUARD', t_)
            return re.sub(r"'\w+", "'_", t_)
        return [norm(F.types[b_['locals'][i]]['s']) for i in range(0, b_['argc'] + 1)]
    for pa, sy in ps:
        if pa['kind'] == 'Closure':
            continue
        fa_ = F.fns.get(pa['q'], {})
        if not (fa_.get('vis') == 'Public' or pa['impl_trait']):
            continue
        ta_, ts_ = tysig(pa), tysig(sy)
        out.append(Obl('SIB-SIG', unflav(pa['q']).replace('F::', '%s|%s::' % (F.flavour(pa), F.flavour(sy)), 1), sy['span'], 'same signature up to Rc/Arc, RefCell/RwLock', ta_ == ts_,
                       'ok' if ta_ == ts_ else 'plain (%s) -> %s vs sync (%s) -> %s' % (', '.join(ta_[1:]), ta_[0], ', '.join(ts_[1:]), ts_[0])))
    # error sets and footprints of the public node operations
    for a, s in SIB.items():
        Ma, Ms = model(ctx, a), model(ctx, s)
        for q, b in sorted(F.bodies.items()):
            if F.flavour(b) != a or b['kind'] == 'Closure' or b['impl_self_q'] != a + '::node::Node' or b['impl_trait']:
                continue
            sq = q.replace(a + '::', s + '::', 1)
            sb = F.bodies.get(sq)
            if sb is None:
                continue
            ea, es = error_set(ctx, b), error_set(ctx, sb)
            fa = {Ma.role(x) for x in footprint(F, Ma, b)}
            fs = {Ms.role(x) for x in footprint(F, Ms, sb)}
            ok = ea == es and fa == fs
            out.append(Obl('SIB-SEM', '%s|%s::node::Node::%s' % (a, s, b['name']), sb['span'], 'same error set and list footprint', ok,
                           'errors %s / %s, footprint %s / %s' % (sorted(ea), sorted(es), sorted(fa), sorted(fs))))
            # ... and per failing callee the same errors surface (propagating a helper's error and replacing it by a constant are the
            # same thing only as long as the helper has no other error)
            from .rules_edge import error_profile
            pa_, ps_ = error_profile(ctx, b), error_profile(ctx, sb)
            if pa_ or ps_:
                okp = {k: sorted(v) for k, v in pa_.items()} == {k: sorted(v) for k, v in ps_.items()}
                out.append(Obl('SIB-SEM', '%s|%s::node::Node::%s' % (a, s, b['name']), sb['span'], 'a failing helper surfaces as the same error in both flavours', okp,
                               'both: %s' % {k: sorted(v) for k, v in pa_.items()} if okp else 'plain %s vs sync %s' % ({k: sorted(v) for k, v in pa_.items()}, {k: sorted(v) for k, v in ps_.items()})))
    # effect sequences of the node operations: which half is touched at which endpoint, in which order
    from .effects import node_events
    for a, s_ in SIB.items():
        Ma, Ms = model(ctx, a), model(ctx, s_)
        for q, b in sorted(F.bodies.items()):
            if F.flavour(b) != a or b['kind'] == 'Closure' or b['impl_self_q'] != a + '::node::Node' or b['impl_trait']:
                continue
            sb = F.bodies.get(q.replace(a + '::', s_ + '::', 1))
            if sb is None:
                continue

            def seq(M, body):
                # bag of (endpoint, list effects, outcomes of other list effects this one is conditional on); the order of
                # unconditional effects is not observable and is not compared
                from .core import outcome_edges
                cfg = F.cfg(body)
                evs = [e for e in node_events(F, M, body) if M.muts(e[1])]

                def lab(e):
                    own = e[2]
                    role = 'self' if own == ('param', 1) else ('other' if own == ('param', 2) else 'peer')
                    return (role, tuple(sorted((M.role(f), op) for f, op in M.muts(e[1]))))
                oc = {}
                for e in evs:
                    oc[e[0]] = outcome_edges(F, body, e[0])
                out_ = []
                for e in evs:
                    cond = set()
                    for d in evs:
                        if d[0] == e[0]:
                            continue
                        g, bd = oc[d[0]]
                        if g and cfg.edge_dominates(g[0], g[1], e[0]):
                            cond.add((lab(d), 'ok'))
                        if bd and cfg.edge_dominates(bd[0], bd[1], e[0]):
                            cond.add((lab(d), 'fail'))
                    out_.append((lab(e), tuple(sorted(cond))))
                return sorted(out_)
            sa, ss = seq(Ma, b), seq(Ms, sb)
            if sa or ss:
                out.append(Obl('SIB-SEM', '%s|%s::node::Node::%s' % (a, s_, b['name']), sb['span'], 'same sequence of list effects (endpoint, list, operation)', sa == ss,
                               'both: %s' % sa if sa == ss else 'plain %s vs sync %s' % (sa, ss)))
    # kernel signatures
    ks = {K.q: K for K in ctx.kernels()}
    for a, s_ in SIB.items():
        for q, K in sorted(ks.items()):
            if K.flavour != a:
                continue
            KS = ks.get(q.replace(a + '::', s_ + '::', 1))
            if KS is None:
                continue

            def sig(k):
                # what the kernel computes, not how it keeps its frontier (the family rules decide that per kernel)
                if k.missing:
                    return ('roles missing',)
                emit = None
                if k.recurse and 'RECORD' in k.sites:
                    rb = k.recurse[0][0]
                    emit = 'pre' if k.cfg.dominates(k.sites['RECORD'], rb) else ('post' if k.cfg.dominates(rb, k.sites['RECORD']) else '?')
                # the iterator is identified by its type (`for e in &node` and `node.iter_out()` both build an IterOut at position 0;
                # what the constructors build is decided by IT2 / ORIENT)
                ic = getattr(k, 'iter_type', None) or k.iter_ctor
                return (k.family, ic, k.edge_kind, bool(k.result), emit, k.teq_true is not None)
            sa, ss = sig(K), sig(KS)
            out.append(Obl('SIB-SEM', '%s|%s::%s' % (a, s_, q.split('::', 1)[1]), KS.b['span'], 'same kernel signature (iterator, edge presentation, frontier discipline, emission)', sa == ss,
                           'both: %s' % (sa,) if sa == ss else 'plain %s vs sync %s' % (sa, ss)))
    # trait impls present on one side only (public behaviour!)
    impl_a = collections.defaultdict(set)
    for im in F.impls:
        fl = im['self_q'].lstrip('&').split('::')[0]
        if fl in FLAVOURS and im['trait']:
            impl_a[fl].add((unflav(im['self_q']), im['trait'], tuple(sorted(unflav(p) for p in im['preds'] if not p.endswith('std::marker::Sized')))))
    for a, s in SIB.items():
        ta = {(x[0], x[1]) for x in impl_a[a]}
        ts = {(x[0], x[1]) for x in impl_a[s]}
        for x in sorted(ta | ts):
            if x[1].startswith('std::marker::'):
                continue
            ok = x in ta and x in ts
            if ok:
                pa_ = [y[2] for y in impl_a[a] if (y[0], y[1]) == x]
                ps_ = [y[2] for y in impl_a[s] if (y[0], y[1]) == x]
                same = sorted(pa_) == sorted(ps_)
                out.append(Obl('SIB-IMPL', '%s|%s %s for %s' % (a, s, x[1].split('::')[-1], x[0]), '-', 'trait impl present on both sides with the same bounds', same,
                               'ok' if same else 'bounds differ: plain %s vs sync %s' % ([sorted(set(p) - set(q)) for p, q in zip(pa_, ps_)], [sorted(set(q) - set(p)) for p, q in zip(pa_, ps_)])))
            elif x[1] in ('std::iter::FusedIterator', 'std::iter::TrustedLen', 'std::marker::Copy'):
                # traits std specialises on: `.fuse()`, collect() sizing, bitwise copies of *existing* programs
                # behave differently when only one flavour has the impl
                out.append(Obl('SIB-IMPL', '%s|%s %s for %s' % (a, s, x[1].split('::')[-1], x[0]), '-', 'no one-sided impl of a trait that changes how std adaptors treat the type', False,
                               'impl %s for %s exists only in %s' % (x[1], x[0], a if x in ta else s)))
            elif x[1] == 'std::ops::Drop':
                # Drop is not an optional API: it runs in every program that uses the type
                out.append(Obl('SIB-IMPL', '%s|%s Drop for %s' % (a, s, x[0]), '-', 'no one-sided Drop impl (drop glue runs implicitly in programs common to both flavours)', False,
                               'impl Drop for %s exists only in %s' % (x[0], a if x in ta else s)))
            else:
                # one-sided API: listed in the evidence, not judged (the property is about the common API)
                ctx.cache.setdefault('evidence_extra', {}).setdefault('C15', {}).setdefault('one_sided_impls', []).append('%s for %s only in %s' % (x[1], x[0], a if x in ta else s))
    ctx.cache.setdefault('evidence_extra', {}).setdefault('C15', {})['unpaired_functions'] = {'plain_only': op, 'sync_only': os_}
    # one-sided API is not judged -- except on a type that implements Deref: an inherent method takes priority over the methods of
    # the Deref target at *existing* call sites (`node.contains(&k)` used to reach the value's own `contains`), so a method that
    # exists in one flavour only changes what a common program computes
    deref_types = {im['self_q'] for im in F.impls if im['trait'] == 'std::ops::Deref'}
    for side, qs in (('plain', op), ('sync', os_)):
        for q in qs:
            b_ = F.bodies.get(q)
            if b_ is None or b_['kind'] == 'Closure' or b_['impl_trait'] or b_['impl_self_q'] not in deref_types:
                continue
            if F.fns.get(q, {}).get('vis') != 'Public' or b_['argc'] < 1:
                continue
            t1_ = F.types[b_['locals'][1]]
            is_self = t1_.get('p') == b_['impl_self_q'] or (t1_['k'] == 'ref' and t1_.get('a') and F.types[t1_['a'][0]].get('p') == b_['impl_self_q'])
            if not is_self:
                continue
            out.append(Obl('SIB-API', q, b_['span'], 'no one-sided public method on a type that derefs to the user value', False,
                           '%s exists only in the %s flavour: it shadows `value.%s(..)` reached through Deref at existing call sites' % (q, side, b_['name'])))
    ctx.cache['evidence_extra']['C15']['structural_differences_tolerated'] = tolerated
    return out


FLAVTXT_RE = re.compile(r'\bgdsl::(sync_digraph|sync_ungraph|digraph|ungraph)\b|\bsrc/(sync_digraph|sync_ungraph|digraph|ungraph)/')


def flav(ctx, flavours=FLAVOURS):
    """flavour closure: a body under gdsl::F:: references only gdsl::F:: and gdsl::error"""
    F = ctx.F
    out = []
    for fl in flavours:
        for q, b in sorted(F.bodies.items()):
            if F.flavour(b) != fl:
                continue
            bad = set()
            for bi, t in calls_in(b):
                for name in (t['callee'], t.get('res', '')):
                    for m in FLAV_RE.finditer(name or ''):
                        if m.group(1) != fl and (m.start() == 0 or name[m.start() - 1] in '<& (,'):
                            bad.add(name)
            for i in b['locals']:
                for ty in F.ty_walk(i):
                    if ty['k'] == 'adt' and ty.get('local'):
                        first = ty['p'].split('::')[0]
                        if first in FLAVOURS and first != fl:
                            bad.add(ty['p'])
            # the identity of a flavour's own type is flavour-specific text / data: `type_name::<Graph<..>>()` reads
            # "gdsl::digraph::Graph<..>" in one sibling and "gdsl::sync_digraph::Graph<..>" in the other although the two
            # functions are the same token for token
            tyid = []
            for bi, t in calls_in(b):
                if t['callee'] in ('std::any::type_name', 'std::any::type_name_of_val', 'std::any::TypeId::of', 'std::any::Any::type_id'):
                    loc = sorted({ty['p'] for g in t.get('gargs', []) for ty in F.ty_walk(g) if ty['k'] == 'adt' and ty.get('local') and ty['p'].split('::')[0] in FLAVOURS})
                    if loc:
                        tyid.append('%s of %s at %s' % (t['callee'].split('::')[-1], loc[0], t['sp']))
            def _consts(o):
                if isinstance(o, dict):
                    if o.get('k') == 'const' and isinstance(o.get('v'), str) and 'str' in (o.get('ty') or '') and FLAVTXT_RE.search(o['v']):
                        tyid.append('text constant %s (module_path! / file!)' % o['v'][:60])
                    for v in o.values():
                        _consts(v)
                elif isinstance(o, list):
                    for v in o:
                        _consts(v)
            _consts(b['blocks'])
            out.append(Obl('FLAV', q, b['span'], 'references only %s:: and error::' % fl, not bad and not tyid,
                           'foreign flavour paths: ' + ', '.join(sorted(bad)[:4]) if bad else ('observes the identity of a flavour type (differs between the siblings): ' + ', '.join(tyid) if tyid else 'closed')))
    return out
