"""BT: back-tracking of the discovery edge tree into a path (Path::from_edge_tree / backtrack_edge_tree)."""
import re
from .core import Obl, calls_in, callee_name, pretty, strip_payload, unwrap_payload, deep_unwrap, term_calls, term_mentions, proj_field

P1_ = ('param', 1)


def _find_bt(F, fl):
    """the function that turns an edge tree Vec<Edge> into a Vec<Edge> path: free fn (Vec<Edge>) -> Vec<Edge> in algo::path"""
    out = []
    for q, b in F.bodies.items():
        if F.flavour(b) != fl or b['kind'] != 'Fn' or b['argc'] != 1:
            continue
        a = F.types[b['locals'][1]]
        r = F.types[b['locals'][0]]
        if a['k'] == 'adt' and a['p'] == 'std::vec::Vec' and r['k'] == 'adt' and r['p'] == 'std::vec::Vec' and F.ty_has_adt(b['locals'][1], r'::node::Edge$') and b['locals'][0] == b['locals'][1]:
            out.append(b)
    return out


def bt(ctx, flavours):
    F = ctx.F
    out = []
    for fl in flavours:
        cands = _find_bt(F, fl)
        if len(cands) != 1:
            out.append(Obl('BT', fl, '-', 'back-tracking function present', False, '%d candidates' % len(cands)))
            continue
        b = cands[0]
        cfg, pv = F.cfg(b), F.prov(b)
        q = b['q']

        def O(rule, inst, ok, why, bi=None):
            out.append(Obl(rule, q, F.where(b, bi) if bi is not None else b['span'], inst, ok, why))
        # Path::from_edge_tree wraps it
        wrap = [w for w in F.by_flavour(fl) if w['name'] == 'from_edge_tree' and any(t.get('res') == q for _, t in calls_in(w))]
        okw = False
        if len(wrap) == 1:
            wpv = F.prov(wrap[0])
            rt = wpv.of_local(0)
            okw = isinstance(rt, tuple) and rt[0] == 'aggr' and len(rt[2]) == 1 and isinstance(rt[2][0], tuple) and rt[2][0][0] == 'call' and rt[2][0][1] == q and strip_payload(rt[2][0][2][0]) == P1_
        O('BT-wrap', 'Path::from_edge_tree(t) = Path { edges: backtrack(t) }', okw, 'ok' if okw else 'from_edge_tree does not wrap the back-tracking result of its argument')
        # the path vector: the local returned
        pushes = calls_in(b, lambda t: callee_name(t).endswith('Vec::push'))
        ret = pv.of_local(0)
        path_term = strip_payload(ret)
        # scan loop
        nexts = [(bi, t) for bi, t in calls_in(b, lambda t: t['callee'] == 'std::iter::Iterator::next')]
        if len(nexts) != 1:
            O('BT-scan', 'one scan loop over the edge tree', False, '%d next() sites' % len(nexts))
            continue
        nbi, nt = nexts[0]
        chain = pv.of_operand(nt['args'][0])
        names = [c[1].split('::')[-1] for c in term_calls(chain)]
        over_tree = term_mentions(chain, lambda z: z == P1_)
        item = proj_field(('v', ('call', callee_name(nt), tuple(pv.of_operand(a) for a in nt['args']), nbi), 'Some#1'), '0')
        # seed
        seed_pushes = [(bi, pv.of_operand(t['args'][1]), strip_payload(pv.of_operand(t['args'][0]))) for bi, t in pushes if not cfg.path_exists(nbi, bi)]
        # `vec![seed]`: a one-element array literal placed before the scan initialises the path
        for bi, bb in enumerate(b['blocks']):
            if bb['cleanup'] or bi not in cfg.reach or cfg.path_exists(nbi, bi):
                continue
            for st in bb['stmts']:
                if st['k'] == 'assign' and st['rv']['k'] == 'aggr' and st['rv']['ak'].startswith('array') and len(st['rv']['ops']) == 1 and \
                        any(c[1].endswith('into_vec') or 'into_vec' in c[1] for c in term_calls(path_term)):
                    seed_pushes.append((bi, pv.of_operand(st['rv']['ops'][0]), path_term))
        loop_pushes = [(bi, t) for bi, t in pushes if cfg.path_exists(nbi, bi)]
        seeds_ok = True
        seed_why = []
        main_seed = None
        for bi, v, recv in seed_pushes:
            v = deep_unwrap(v)
            if recv != path_term:
                seeds_ok = False
                seed_why.append('push into another vector')
            if isinstance(v, tuple) and v[0] == 'call' and v[1].endswith(']::last') and strip_payload(v[2][0]) == P1_:
                if cfg.dominates(bi, nbi):
                    main_seed = bi
            elif isinstance(v, tuple) and v[0] == 'f' and v[2] == '0' and isinstance(v[1], tuple) and v[1][0] == 'call' and v[1][1].endswith(']::split_last') and strip_payload(v[1][2][0]) == P1_:
                # (last, rest) = tree.split_last()
                if cfg.dominates(bi, nbi):
                    main_seed = bi
            elif isinstance(v, tuple) and v[0] == 'call' and v[1].endswith('Index<I>>::index') and strip_payload(v[2][0]) == P1_:
                # tree[len-1] is last(); any other index is the single-edge special case tree[0]
                if _is_len_minus_1(v[2][1]) and cfg.dominates(bi, nbi):
                    main_seed = bi
                elif not _is_len_minus_1(v[2][1]):
                    # the special case `tree[0]` stands for last() only when the tree has exactly one edge: it must sit on the true edge of
                    # a test len(tree) == 1
                    guarded = False
                    for sb_ in sorted(cfg.reach):
                        tt_ = b['blocks'][sb_]['term']
                        if tt_['k'] != 'switch':
                            continue
                        tm_ = pv.of_operand(tt_['op'])
                        if isinstance(tm_, tuple) and tm_ and tm_[0] == 'binop' and tm_[1] == 'Eq' and ('const', '1_usize') in tm_[2] and \
                                any(isinstance(z, tuple) and z and z[0] == 'call' and z[1].endswith('::len') and strip_payload(z[2][0]) == P1_ for z in tm_[2]):
                            if cfg.edge_dominates(sb_, tt_['otherwise'], bi) and tt_['otherwise'] not in [tg for v_, tg in tt_['targets'] if v_ == 0]:
                                guarded = True
                    if v[2][1] != ('const', '0_usize') or not guarded:
                        seeds_ok = False
                        seed_why.append('seed tree[%s] is pushed without len(tree) == 1 being established' % pretty(v[2][1]))
            else:
                seeds_ok = False
                seed_why.append('seed %s is not an element of the edge tree' % pretty(v))
        if main_seed is None:
            seeds_ok = False
            seed_why.append('the scan is not seeded with last() of the edge tree')
        # every way out of the function has seeded the path (the single-edge special case included)
        seed_blocks = {bi for bi, v, recv in seed_pushes if recv == path_term}
        for rbi in cfg.returns:
            if cfg.path_exists(0, rbi, avoiding=seed_blocks) and 0 not in seed_blocks:
                seeds_ok = False
                seed_why.append('a path to the return at %s pushes no edge of the tree (an edge tree is never empty, so the path must not be)' % F.where(b, rbi))
                break
        # ... and has seeded it once: no seed push lies on the path of another
        sbl = sorted(bi for bi, v, recv in seed_pushes if recv == path_term)
        if len(sbl) != len(set(sbl)) or any(a != c and cfg.path_exists(a, c) for a in set(sbl) for c in set(sbl)):
            seeds_ok = False
            seed_why.append('the path is seeded more than once on some route (the seed edge would appear twice)')
        O('BT-seed', 'path seeded with the last (closing / target) edge of the tree', seeds_ok, '; '.join(seed_why) if seed_why else 'seed = last(tree)', main_seed)
        # scan direction and range
        is_rev = 'rev' in names
        recognised = None
        if over_tree and is_rev and names.count('rev') == 1:
            extra = [n for n in names if n not in ('rev', 'iter', 'into_iter', 'deref')]
            # tree[..len-1] / tree[..=k]: a slice of the tree
            slices = [c for c in term_calls(chain) if c[1].endswith('Index<I>>::index') and strip_payload(c[2][0]) == P1_ and isinstance(c[2][1], tuple) and c[2][1][0] == 'aggr']
            if len(slices) == 1 and sorted(set(extra)) in (['index'], ['index', 'len']):
                rng = slices[0][2][1]
                if rng[1] == 'adt:std::ops::RangeTo::RangeTo' and _is_len_minus_1(rng[2][0]):
                    recognised = 'skip(rev(iter(tree)),1)'   # tree[..len-1]: everything but the seed
                else:
                    recognised = None
                extra = ['<slice>']
            sl = [c for c in term_calls(chain) if c[1].endswith(']::split_last') and strip_payload(c[2][0]) == P1_]
            if sl and sorted(set(extra)) == ['split_last']:
                # rest of split_last(): everything but the last edge -- provided the scan runs over `.1` of it
                over_rest = term_mentions(deep_unwrap(chain), lambda z: isinstance(z, tuple) and len(z) == 3 and z[0] == 'f' and z[2] == '1' and isinstance(z[1], tuple) and z[1] and z[1][0] == 'call' and z[1][1].endswith(']::split_last'))
                recognised = 'skip(rev(iter(tree)),1)' if over_rest else None
                extra = ['<split_last>']
            if not extra:
                recognised = 'rev(iter(tree))'
            elif extra == ['skip']:
                sk = [c for c in term_calls(chain) if c[1].endswith('Iterator::skip')]
                inner_rev = sk and any(cc[1].endswith('Iterator::rev') for cc in term_calls(sk[0][2][0])) or (sk and isinstance(sk[0][2][0], tuple) and sk[0][2][0][0] == 'call' and sk[0][2][0][1].endswith('Iterator::rev'))
                if sk and sk[0][2][1] == ('const', '1_usize') and inner_rev:
                    recognised = 'skip(rev(iter(tree)),1)'
        O('BT-scan', 'scan runs over the edge tree in reverse', bool(over_tree and is_rev), 'scan = %s' % pretty(chain), nbi)
        if recognised == 'skip(rev(iter(tree)),1)':
            O('BT-disjoint', 'scanned range excludes the seed edge', True, recognised, nbi)
        elif recognised == 'rev(iter(tree))':
            O('BT-disjoint', 'scanned range excludes the seed edge', False, 'the reverse scan starts at the seed edge itself: a closing self-loop is joined to itself and emitted twice', nbi)
        else:
            O('BT-disjoint', 'scanned range excludes the seed edge', False, 'unrecognised scan range %s (fail closed)' % pretty(chain), nbi)
        # join condition
        okj = True
        whyj = []
        if len(loop_pushes) != 1:
            okj = False
            whyj.append('%d pushes inside the scan' % len(loop_pushes))
        else:
            pbi, pt = loop_pushes[0]
            v = deep_unwrap(pv.of_operand(pt['args'][1]))
            if v != deep_unwrap(item):
                okj = False
                whyj.append('pushed %s, not the scanned edge' % pretty(v))
            if strip_payload(pv.of_operand(pt['args'][0])) != path_term:
                okj = False
                whyj.append('pushed into another vector')
            eqs = []
            for ebi, et in calls_in(b, lambda t: t['callee'] == 'std::cmp::PartialEq::eq'):
                a0, a1 = [deep_unwrap(pv.of_operand(a)) for a in et['args'][:2]]
                for x, y in ((a0, a1), (a1, a0)):
                    if y == ('f', deep_unwrap(item), '1') and isinstance(x, tuple) and x[0] == 'f' and x[2] == '0' and isinstance(x[1], tuple) and x[1][0] == 'call' and x[1][1].endswith('index') and strip_payload(x[1][2][0]) == path_term:
                        eqs.append((ebi, et, x[1][2][1]))
            lasts = []
            for ebi, et in calls_in(b, lambda t: t['callee'] == 'std::cmp::PartialEq::eq'):
                a0, a1 = [deep_unwrap(pv.of_operand(a)) for a in et['args'][:2]]
                for x, y in ((a0, a1), (a1, a0)):
                    if y == ('f', deep_unwrap(item), '1') and isinstance(x, tuple) and x[0] == 'f' and x[2] == '0' and isinstance(x[1], tuple) and x[1][0] == 'call' and x[1][1].endswith(']::last') \
                            and strip_payload(x[1][2][0]) == path_term and cfg.path_exists(nbi, x[1][3]) and cfg.path_exists(x[1][3], nbi):
                        lasts.append((ebi, et))
            if len(eqs) == 0 and len(lasts) == 1:
                # cursor-free form: the last joined edge is read back from the path (path.last()) on every iteration
                ebi, et = lasts[0]
                te, fe = cfg.bool_edges(et['dst']['l'], et['target'])
                if te is None or not cfg.edge_dominates(te[0], te[1], pbi):
                    okj = False
                    whyj.append('push is not confined to the join-true edge')
            elif len(eqs) != 1:
                okj = False
                whyj.append('join test source(path[i]) == target(candidate) not found')
            else:
                ebi, et, iterm = eqs[0]
                te, fe = cfg.bool_edges(et['dst']['l'], et['target'])
                if te is None or not cfg.edge_dominates(te[0], te[1], pbi):
                    okj = False
                    whyj.append('push is not confined to the join-true edge')
                # i: {0, i+1}, incremented exactly on the push path
                ok_i = isinstance(iterm, tuple) and iterm[0] == 'join' and ('const', '0_usize') in iterm[1] and any(
                    isinstance(z, tuple) and (z[0] == 'f' and isinstance(z[1], tuple) and z[1][0] == 'binop' and z[1][1].startswith('Add') and ('const', '1_usize') in z[1][2]
                                             or z[0] == 'binop' and z[1].startswith('Add') and ('const', '1_usize') in z[2]) for z in iterm[1])
                if not ok_i:
                    okj = False
                    whyj.append('path cursor %s is not {0, i+1}' % pretty(iterm))
                else:
                    incs = []
                    for bi, bb in enumerate(b['blocks']):
                        if bb['cleanup'] or bi not in cfg.reach:
                            continue
                        for s in bb['stmts']:
                            if s['k'] == 'assign' and s['rv']['k'] == 'binop' and s['rv']['op'].startswith('Add') and ('1_usize' in [o.get('v') for o in s['rv']['ops']]):
                                incs.append(bi)
                    # push and increment belong to the same join (either statement order): both behind the join-true edge, one on the path of
                    # the other, and no way back to the scan that skips either
                    same_join = len(incs) == 1 and (cfg.dominates(pbi, incs[0]) or cfg.dominates(incs[0], pbi)) and te is not None and \
                        cfg.edge_dominates(te[0], te[1], incs[0]) and not cfg.path_exists(te[1], nbi, avoiding={incs[0]}) and not cfg.path_exists(te[1], nbi, avoiding={pbi})
                    if not same_join:
                        okj = False
                        whyj.append('cursor is not advanced exactly once per joined edge')
        O('BT-join', 'an edge is joined only when its target is the source of the last joined edge; cursor advances once per join', okj, '; '.join(whyj) if whyj else 'ok')
        # final reverse on the returned vector
        revs = [(bi, t) for bi, t in calls_in(b, lambda t: callee_name(t).endswith(']::reverse') or callee_name(t).endswith('Vec::reverse'))]
        okr = len(revs) == 1 and strip_payload(pv.of_operand(revs[0][1]['args'][0])) == path_term and not cfg.path_exists(revs[0][0], nbi) and cfg.path_exists(nbi, revs[0][0])
        O('BT-rev', 'path reversed once after the scan (root first)', okr, 'ok' if okr else '%d reverse calls / misplaced' % len(revs))
    return out


def _is_len_minus_1(t):
    t = deep_unwrap(t)
    if isinstance(t, tuple) and t[0] == 'f' and isinstance(t[1], tuple) and t[1][0] == 'binop':
        t = t[1]
    return isinstance(t, tuple) and t[0] == 'binop' and t[1].startswith('Sub') and isinstance(t[2][0], tuple) and t[2][0][0] == 'call' and t[2][0][1].endswith('::len') and \
        strip_payload(t[2][0][2][0]) == P1_ and t[2][1] == ('const', '1_usize')


def path_api(ctx, flavours):
    """PATH: the Path accessors present the edge list faithfully: edge iterator = edges[i]; node iterator = source of edges[0],
    then target of edges[i-1]; last_node = target of the last edge; to_vec_* collect those"""
    F = ctx.F
    out = []
    for fl in flavours:
        pp = fl + '::node::algo::path::'
        EDGES = ('f', ('f', P1_, '0'), '0')   # self.path.edges
        POS = ('f', P1_, '1')

        def O(q, inst, ok, why):
            b = F.bodies.get(q)
            out.append(Obl('PATH', q, b['span'] if b else '-', inst, ok, why))
        # edge iterator
        q = '<%sPathEdgeIterator as std::iter::Iterator>::next' % pp
        b = F.bodies.get(q)
        if b is None:
            O(q, 'present', False, 'anchor missing')
        else:
            pv = F.prov(b)
            gets = [(bi, t) for bi, t in calls_in(b) if callee_name(t).endswith(']::get')]
            why = []
            if len(gets) != 1 or deep_unwrap(pv.of_operand(gets[0][1]['args'][0])) != EDGES or deep_unwrap(pv.of_operand(gets[0][1]['args'][1])) != POS:
                why.append('does not read edges[position]')
            else:
                g = deep_unwrap(('call', callee_name(gets[0][1]), tuple(pv.of_operand(a) for a in gets[0][1]['args']), gets[0][0]))
                somes = [deep_unwrap(pv.of_operand(s['rv']['ops'][0])) for bb in b['blocks'] if not bb['cleanup'] for s in bb['stmts'] if s['k'] == 'assign' and s['dst']['l'] == 0 and s['rv']['k'] == 'aggr' and s['rv']['ak'].endswith('Option::Some')]
                exp = ('aggr', 'adt:%s::node::Edge::Edge' % fl, (('f', g, '0'), ('f', g, '1'), ('f', g, '2')))
                if somes != [exp] and somes != [g]:
                    why.append('yields %s, expected a copy of edges[position]' % (pretty(somes[0]) if somes else 'nothing'))
            why += _pos_increments(F, b, 1)
            O(q, 'edge iterator yields edges[position] and advances by one', not why, '; '.join(why) if why else 'ok')
        # node iterator
        q = '<%sPathNodeIterator as std::iter::Iterator>::next' % pp
        b = F.bodies.get(q)
        if b is None:
            O(q, 'present', False, 'anchor missing')
        else:
            pv = F.prov(b)
            gets = [(bi, t) for bi, t in calls_in(b) if callee_name(t).endswith(']::get') or callee_name(t).endswith(']::first')]
            why = []

            def alts(t):
                t = deep_unwrap(t)
                if isinstance(t, tuple) and t and t[0] == 'join':
                    out_ = []
                    for x in t[1]:
                        out_ += alts(x)
                    return out_
                if isinstance(t, tuple) and t and t[0] == 'aggr' and t[1] == 'tuple':
                    return [t]
                return [t]

            def is_pos_minus_1(idx):
                return isinstance(idx, tuple) and ((idx[0] == 'f' and isinstance(idx[1], tuple) and idx[1][0] == 'binop' and idx[1][1].startswith('Sub') and deep_unwrap(idx[1][2][0]) == POS and idx[1][2][1] == ('const', '1_usize')) or
                                                   (idx[0] == 'binop' and idx[1].startswith('Sub') and deep_unwrap(idx[2][0]) == POS and idx[2][1] == ('const', '1_usize')))
            idx_kinds = set()
            for bi, t in gets:
                if deep_unwrap(pv.of_operand(t['args'][0])) != EDGES:
                    why.append('reads another list than the path edges')
                if callee_name(t).endswith(']::first'):
                    idx_kinds.add('0')
                    continue
                for a_ in alts(pv.of_operand(t['args'][1])):
                    # a (index, flag) pair selected by `position == 0` shows up as field 0 of a tuple alternative
                    if isinstance(a_, tuple) and a_[0] == 'f' and isinstance(a_[1], tuple) and a_[1][0] in ('join', 'aggr'):
                        for tup in alts(a_[1]):
                            if isinstance(tup, tuple) and tup[0] == 'aggr' and tup[2]:
                                a2 = deep_unwrap(tup[2][int(a_[2])] if a_[2].isdigit() and int(a_[2]) < len(tup[2]) else tup[2][0])
                                idx_kinds.add('pos-1' if is_pos_minus_1(a2) else ('pos' if a2 == POS else ('0' if a2 == ('const', '0_usize') else pretty(a2))))
                        continue
                    a_d = deep_unwrap(a_)
                    if isinstance(a_d, tuple) and a_d and a_d[0] == 'call' and a_d[1].endswith('::saturating_sub') and a_d[2][0] == POS and a_d[2][1] == ('const', '1_usize'):
                        idx_kinds |= {'0', 'pos-1'}      # position.saturating_sub(1): 0 on the first call, position-1 afterwards
                        continue
                    idx_kinds.add('pos-1' if is_pos_minus_1(a_) else ('pos' if a_ == POS else ('0' if a_ == ('const', '0_usize') else pretty(a_))))
            if not idx_kinds <= {'pos', '0', 'pos-1'} or 'pos-1' not in idx_kinds or not (idx_kinds & {'pos', '0'}):
                why.append('reads edges at %s; expected edges[0] (first call) and edges[position-1] (afterwards)' % sorted(idx_kinds))
            fields = set()
            gcalls = {bi for bi, t in gets}
            for bb in b['blocks']:
                if bb['cleanup']:
                    continue
                for s_ in bb['stmts']:
                    if s_['k'] == 'assign' and s_['dst']['l'] == 0 and s_['rv']['k'] == 'aggr' and s_['rv']['ak'].endswith('Option::Some'):
                        for y in alts(pv.of_operand(s_['rv']['ops'][0])):
                            if isinstance(y, tuple) and y[0] == 'f' and isinstance(y[1], tuple) and y[1][0] == 'call' and y[1][3] in gcalls:
                                fields.add(y[2])
                            else:
                                fields.add('?' + pretty(y))
            if fields != {'0', '1'}:
                why.append('yields fields %s of the read edge; expected its source (for the root) and its target' % sorted(fields))
            eqs = [bi for bi, bb in enumerate(b['blocks']) if not bb['cleanup'] and bb['term']['k'] == 'switch' and
                   isinstance(pv.of_operand(bb['term']['op']), tuple) and pv.of_operand(bb['term']['op'])[0] == 'binop' and pv.of_operand(bb['term']['op'])[1] in ('Eq', 'Ne', 'Gt', 'Lt') and
                   ('const', '0_usize') in pv.of_operand(bb['term']['op'])[2]]
            direct = [bi for bi, bb in enumerate(b['blocks']) if not bb['cleanup'] and bb['term']['k'] == 'switch' and deep_unwrap(pv.of_operand(bb['term']['op'])) == POS and
                      any(v == 0 for v, _ in bb['term']['targets'])]
            if not eqs and not direct:
                why.append('no test position == 0')
            else:
                # polarity: the edge on which position == 0 holds ("first call") selects the source / index position; the other edge the
                # target / index position-1
                cfg = F.cfg(b)
                zero_e = nonzero_e = None
                if eqs:
                    sb_ = eqs[0]
                    tt_ = b['blocks'][sb_]['term']
                    opn = pv.of_operand(tt_['op'])[1]
                    z_ = [tg for v, tg in tt_['targets'] if v == 0]
                    f_edge, t_edge = (sb_, z_[0] if z_ else tt_['otherwise']), (sb_, tt_['otherwise'])
                    if opn == 'Eq':
                        zero_e, nonzero_e = t_edge, f_edge
                    elif opn in ('Ne', 'Gt'):
                        zero_e, nonzero_e = f_edge, t_edge
                elif direct:
                    sb_ = direct[0]
                    tt_ = b['blocks'][sb_]['term']
                    z_ = [tg for v, tg in tt_['targets'] if v == 0]
                    zero_e, nonzero_e = (sb_, z_[0]), (sb_, tt_['otherwise'])
                if zero_e is not None:
                    for gbi, gt in gets:
                        for a_ in (alts(pv.of_operand(gt['args'][1])) if len(gt['args']) > 1 else []):
                            if is_pos_minus_1(a_) and not cfg.edge_dominates(nonzero_e[0], nonzero_e[1], gbi):
                                why.append('edges[position - 1] is read without position != 0 being established (underflow on the first call)')
                    for bb_i, bb in enumerate(b['blocks']):
                        if bb['cleanup'] or bb_i not in cfg.reach:
                            continue
                        for s_ in bb['stmts']:
                            if s_['k'] != 'assign' or s_['rv']['k'] not in ('use', 'ref', 'aggr'):
                                continue
                            ops_ = s_['rv'].get('ops') or ([{'k': 'copy', 'pl': s_['rv']['pl']}] if 'pl' in s_['rv'] else [])
                            for o_ in ops_:
                                if o_.get('k') not in ('move', 'copy') or not o_['pl']['p']:
                                    continue
                                base = deep_unwrap(pv.of_local(o_['pl']['l']))
                                last = o_['pl']['p'][-1]
                                if isinstance(base, tuple) and base and base[0] == 'call' and base[3] in gcalls and re.match(r'^\.[01]\b', last) and last.endswith('::node::Edge'):
                                    fld = last[1]
                                    need = zero_e if fld == '0' else nonzero_e
                                    other = nonzero_e if fld == '0' else zero_e
                                    if cfg.edge_dominates(other[0], other[1], bb_i) and not cfg.edge_dominates(need[0], need[1], bb_i):
                                        why.append('the %s of the read edge is taken on the position %s 0 branch' % ('source' if fld == '0' else 'target', '!=' if fld == '0' else '=='))
            why += _pos_increments(F, b, None)
            O(q, 'node iterator yields the root, then the target of each edge', not why, '; '.join(why) if why else 'ok')
        # last_node / last_edge / first_edge: which element of the edge list (and which field of it) the accessor hands out,
        # whatever the spelling (first() / get(0); last() / guarded get(len - 1); map / `?` / match; through a sibling accessor)
        for name, want in (('last_node', ('field', 'last', '1')), ('first_edge', ('edge', '0')), ('last_edge', ('edge', 'last'))):
            q = pp + 'Path::' + name
            b = F.bodies.get(q)
            if b is None:
                continue
            t = deep_unwrap(F.prov(b).of_local(0))
            got = _canon_elem(F, t, pp)
            ok = want in got and got <= {want, 'none'}
            why = 'returns ' + pretty(t)
            if ok and any(isinstance(c, tuple) and c[1].endswith(']::get') for c in term_calls(t)) and want[1 if want[0] == 'edge' else 1] == 'last':
                # get(len - 1): the subtraction needs a guard against the empty list
                if not any(bb['term']['k'] == 'switch' for bb in b['blocks'] if not bb['cleanup']):
                    ok = False
                    why = 'edges.get(len - 1) without an emptiness test (underflow on an empty path)'
            O(q, '%s = %s of the %s edge' % (name, 'the target' if want[0] == 'field' else 'a reference', 'last' if 'last' in want else 'first'), ok, why if not ok else 'ok: ' + pretty(t)[:80])
        q = pp + 'Path::len'
        b = F.bodies.get(q)
        if b is not None:
            t = deep_unwrap(F.prov(b).of_local(0))
            base = t[1] if isinstance(t, tuple) and t and t[0] == 'f' and isinstance(t[1], tuple) and t[1][0] == 'binop' else t
            ok = isinstance(base, tuple) and base and base[0] == 'binop' and base[1].startswith('Add') and ('const', '1_usize') in base[2] and \
                any(isinstance(z, tuple) and z and z[0] == 'call' and z[1].endswith('::len') and deep_unwrap(z[2][0]) == ('f', P1_, '0') for z in base[2])
            O(q, 'len() = number of nodes = edges.len() + 1', ok, 'returns ' + pretty(t))
        q = pp + 'Path::to_vec_nodes'
        b = F.bodies.get(q)
        if b is not None:
            t = deep_unwrap(F.prov(b).of_local(0))
            ok = isinstance(t, tuple) and t[0] == 'call' and t[1].endswith('Iterator::collect') and isinstance(t[2][0], tuple) and t[2][0][0] == 'call' and t[2][0][1] == pp + 'Path::iter_nodes' and deep_unwrap(t[2][0][2][0]) == P1_
            why = 'returns ' + pretty(t)
            if not ok:
                lw = _collect_loop_form(F, b, lambda it: isinstance(it, tuple) and it and it[0] == 'call' and it[1] == pp + 'Path::iter_nodes' and deep_unwrap(it[2][0]) == P1_)
                ok = not lw
                why = 'neither iter_nodes().collect() nor a loop pushing every item: ' + '; '.join(lw)
            O(q, 'to_vec_nodes = iter_nodes().collect()', ok, why)
        for name, it in (('iter_nodes', 'PathNodeIterator'), ('iter_edges', 'PathEdgeIterator')):
            q = pp + 'Path::' + name
            b = F.bodies.get(q)
            if b is not None:
                t = F.prov(b).of_local(0)
                ok = isinstance(t, tuple) and t[0] == 'aggr' and t[1] == 'adt:%s%s::%s' % (pp, it, it) and deep_unwrap(t[2][0]) == P1_ and t[2][1] == ('const', '0_usize')
                O(q, '%s starts at position 0 of this path' % name, ok, 'returns ' + pretty(t))
    return out


P2_ = ('param', 2)


def _idx_of(call, EDGES, POS=None):
    """canonical index of a read of the edge list: '0', 'last', 'pos', 'pos-1'; None when the call is not such a read"""
    if not (isinstance(call, tuple) and call and call[0] == 'call' and call[2]):
        return None
    nm = call[1]
    if deep_unwrap(call[2][0]) != EDGES:
        return None
    if nm.endswith(']::first'):
        return '0'
    if nm.endswith(']::last'):
        return 'last'
    if (nm.endswith(']::get') or nm.endswith('::index')) and len(call[2]) == 2:
        i = deep_unwrap(call[2][1])
        if i == ('const', '0_usize'):
            return '0'
        if POS is not None and i == POS:
            return 'pos'
        base = i[1] if (isinstance(i, tuple) and i and i[0] == 'f' and isinstance(i[1], tuple) and i[1] and i[1][0] == 'binop') else i
        if isinstance(base, tuple) and base and base[0] == 'binop' and base[1].startswith('Sub') and base[2][1] == ('const', '1_usize'):
            a = deep_unwrap(base[2][0])
            if isinstance(a, tuple) and a and a[0] == 'call' and a[1].endswith('::len') and deep_unwrap(a[2][0]) == EDGES:
                return 'last'
            if POS is not None and a == POS:
                return 'pos-1'
        if isinstance(i, tuple) and i and i[0] == 'call' and i[1].endswith('::saturating_sub') and POS is not None and deep_unwrap(i[2][0]) == POS and i[2][1] == ('const', '1_usize'):
            return 'pos-1|0'
    return None


def _canon_elem(F, t, pp, depth=0, EDGES=('f', ('param', 1), '0')):
    """what an Option<&Edge>/Option<&Node> valued term denotes over the edge list of self: a set of ('edge', idx), ('field', idx, k),
    'none', or ('?', text) alternatives"""
    from .core import subst_full, closure_result
    t = deep_unwrap(t)
    if not isinstance(t, tuple) or not t or depth > 5:
        return {('?', pretty(t))}
    if t[0] == 'join':
        out = set()
        for x in t[1]:
            out |= _canon_elem(F, x, pp, depth + 1, EDGES)
        return out
    if t[0] == 'aggr' and t[1].endswith('Option::Some') and t[2]:
        return _canon_elem(F, t[2][0], pp, depth + 1, EDGES)
    if t[0] == 'aggr' and t[1].endswith('Option::None'):
        return {'none'}
    if t[0] == 'call':
        if t[1].endswith('from_residual'):
            return {'none'}
        ix = _idx_of(t, EDGES)
        if ix is not None:
            return {('edge', ix), 'none'}
        if t[1].startswith(pp + 'Path::') and t[1] in F.bodies and F.bodies[t[1]]['kind'] != 'Closure' and t[2] and deep_unwrap(t[2][0]) == ('param', 1):
            rt = F.prov(F.bodies[t[1]]).of_local(0)
            return _canon_elem(F, rt, pp, depth + 1, EDGES)
        if t[1].endswith('Option::map') and len(t[2]) == 2:
            inner = _canon_elem(F, t[2][0], pp, depth + 1, EDGES)
            cr = closure_result(F, t[2][1], [('param', 99)])
            cr = deep_unwrap(cr) if cr is not None else None
            out = set()
            for a in inner:
                if a == 'none':
                    out.add(a)
                elif isinstance(a, tuple) and a[0] == 'edge' and isinstance(cr, tuple) and cr[0] == 'f' and cr[1] == ('param', 99):
                    out.add(('field', a[1], cr[2]))
                elif isinstance(a, tuple) and a[0] == 'edge' and cr == ('param', 99):
                    out.add(a)
                else:
                    out.add(('?', 'map of ' + pretty(cr)))
            return out
    if t[0] == 'f':
        inner = _canon_elem(F, t[1], pp, depth + 1, EDGES)
        out = set()
        for a in inner:
            if a == 'none':
                out.add(a)
            elif isinstance(a, tuple) and a[0] == 'edge':
                out.add(('field', a[1], t[2]))
            else:
                out.add(('?', pretty(t)))
        return out
    return {('?', pretty(t))}


def _collect_loop_form(F, b, is_source):
    """`let mut v = Vec::new(); for x in SOURCE { v.push(x) } v` -- the objections to reading b that way (empty = it is that loop)"""
    from .core import outcome_edges
    pv, cfg = F.prov(b), F.cfg(b)
    nexts = [(bi, t) for bi, t in calls_in(b) if callee_name(t).endswith('::next') and t['args']]
    if len(nexts) != 1:
        return ['%d iterator steps' % len(nexts)]
    nbi, nt = nexts[0]
    it = deep_unwrap(pv.of_operand(nt['args'][0]))
    if isinstance(it, tuple) and it and it[0] == 'call' and it[1].endswith('into_iter') and it[2]:
        it = deep_unwrap(it[2][0])
    if not is_source(it):
        return ['iterates %s' % pretty(it)]
    se, ne = outcome_edges(F, b, nbi)
    if se is None:
        return ['the step is not branched on']
    why = []
    pushes = [(bi, t) for bi, t in calls_in(b) if callee_name(t).split('::')[-1].rstrip('>') in ('push', 'push_back', 'insert', 'extend', 'append', 'push_front')]
    if len(pushes) != 1 or not callee_name(pushes[0][1]).endswith('Vec::push'):
        return ['%d insertions into the result' % len(pushes)]
    ubi, ut = pushes[0]
    x = deep_unwrap(pv.of_operand(ut['args'][1]))
    if not (isinstance(x, tuple) and x and x[0] == 'call' and x[1].endswith('::next') and len(x) > 3 and x[3] == nbi):
        why.append('pushes %s, not the item' % pretty(x))
    if not cfg.edge_dominates(se[0], se[1], ubi):
        why.append('push outside the Some branch of the step')
    # every pass through the Some branch pushes: no switch between the step and the push
    for bi2 in cfg.reach:
        bb = b['blocks'][bi2]
        if not bb['cleanup'] and bb['term']['k'] == 'switch' and bi2 != nbi and cfg.edge_dominates(se[0], se[1], bi2) and not (bb['term'].get('op', {}).get('pl', {}).get('l') is None):
            tt = pv.of_operand(bb['term']['op'])
            if not (isinstance(tt, tuple) and tt and tt[0] == 'discr' and se[0] == bi2):
                why.append('a test between the step and the push (items may be skipped)')
                break
    rv = deep_unwrap(pv.of_local(0))
    vec = deep_unwrap(pv.of_operand(ut['args'][0]))
    if not (isinstance(rv, tuple) and rv and rv[0] == 'call' and rv[1].split('::')[-1] in ('new', 'with_capacity') and rv == vec):
        why.append('returns %s, not the vector it fills' % pretty(rv))
    for bi2, bb in enumerate(b['blocks']):
        if bb['cleanup'] or bi2 not in cfg.reach:
            continue
        if bb['term']['k'] == 'return' and not (ne and cfg.edge_dominates(ne[0], ne[1], bi2)):
            why.append('returns before the source is exhausted')
    return why


def _pos_increments(F, b, expected):
    """position is stored `expected` times, each time position + 1, each behind a successful read"""
    pv, cfg = F.prov(b), F.cfg(b)
    why = []
    stores = []
    for bi, bb in enumerate(b['blocks']):
        if bb['cleanup'] or bi not in cfg.reach:
            continue
        for s in bb['stmts']:
            if s['k'] == 'assign' and s['dst']['p'] and s['dst']['p'][-1].startswith('.1:') and strip_payload(pv.of_local(s['dst']['l'])) == P1_:
                stores.append((bi, s))
    if (expected is None and not stores) or (expected is not None and len(stores) != expected):
        why.append('%d stores to position (expected %s)' % (len(stores), expected if expected is not None else 'at least one'))
    # every step that yields an item advances the cursor: no path entry -> `_0 = Some(..)` -> return that avoids all stores
    store_blocks = {bi for bi, _ in stores}
    somes = {bi for bi, bb in enumerate(b['blocks']) if not bb['cleanup'] and bi in cfg.reach and
             any(s['k'] == 'assign' and s['dst']['l'] == 0 and not s['dst']['p'] and s['rv']['k'] == 'aggr' and s['rv']['ak'].endswith('Option::Some') for s in bb['stmts'])}

    def reach_avoiding(starts):
        seen, todo = set(starts), list(starts)
        while todo:
            x = todo.pop()
            for y in cfg.succ[x]:
                if y in seen or y in store_blocks or b['blocks'][y]['cleanup']:
                    continue
                seen.add(y)
                todo.append(y)
        return seen
    if 0 not in store_blocks:
        fwd = reach_avoiding({0})
        for sb_ in sorted(somes & fwd):
            after = reach_avoiding({sb_})
            if any(b['blocks'][x]['term']['k'] == 'return' for x in after):
                why.append('an item is yielded on a path that never advances the cursor (the same item is yielded again)')
                break
    for bi, s in stores:
        term = pv.of_operand(s['rv']['ops'][0]) if s['rv'].get('ops') else None
        t = term[1] if isinstance(term, tuple) and term[0] == 'f' else term
        if not (isinstance(t, tuple) and t[0] == 'binop' and t[1].startswith('Add') and ('const', '1_usize') in t[2] and ('f', P1_, '1') in [deep_unwrap(z) for z in t[2]]):
            why.append('position store is not position + 1')
        # behind the success edge of a get() (match / if let / `?`)
        from .core import outcome_edges
        ok = False
        succ_edges = set()
        for gbi, gt in calls_in(b, lambda t: callee_name(t).endswith(']::get') or callee_name(t).endswith(']::first') or callee_name(t).endswith(']::last')):
            se, fe = outcome_edges(F, b, gbi)
            if se:
                succ_edges.add((se[0], se[1]))
                if cfg.edge_dominates(se[0], se[1], bi):
                    ok = True
        if not ok and succ_edges:
            # several reads (one per branch): every path to the store must cross the success edge of one of them
            seen, todo = {0}, [0]
            while todo:
                x = todo.pop()
                for y in cfg.succ[x]:
                    if (x, y) in succ_edges or y in seen or b['blocks'][y]['cleanup']:
                        continue
                    seen.add(y)
                    todo.append(y)
            ok = bi not in seen
        if not ok:
            why.append('position advances without a successful read')
    return why


def _lin(t, EDGES, POS):
    """a usize term as base + k with base in {'len' (= edges.len()), 'pos' (= self.position), 'const'}; None when it is neither"""
    t = deep_unwrap(t)
    if t == POS:
        return ('pos', 0)
    if isinstance(t, tuple) and t:
        if t[0] == 'const' and isinstance(t[1], str) and re.match(r'^\d+_usize$', t[1]):
            return ('const', int(t[1].split('_')[0]))
        if t[0] == 'call' and t[1].endswith('::len') and t[2] and term_mentions(t[2][0], lambda z: deep_unwrap(z) == EDGES if isinstance(z, tuple) else False):
            return ('len', 0)
        if t[0] == 'call' and t[1].endswith('::len') and t[2] and deep_unwrap(t[2][0]) == EDGES:
            return ('len', 0)
        if t[0] == 'f' and isinstance(t[1], tuple) and t[1] and t[1][0] == 'binop' and t[2] == '0':
            t = t[1]
        if t[0] == 'binop' and t[1].startswith('Add'):
            a, b = _lin(t[2][0], EDGES, POS), _lin(t[2][1], EDGES, POS)
            if a and b and b[0] == 'const':
                return (a[0], a[1] + b[1])
            if a and b and a[0] == 'const':
                return (b[0], a[1] + b[1])
    return None


def path_hint(ctx, flavours):
    """PATH-hint: the Path iterators rely on next() alone; if they override a provided Iterator method, it cannot panic for any
    cursor value next() can produce.  next() (PATH) advances the cursor only behind a successful edges.get(position - c), so
    position ranges over [0, len + c] with c = 0 for the edge iterator and c = 1 for the node iterator (root + one node per edge):
    a subtraction (len + k) - (position + j) needs k >= c + j, or a comparison that guards it."""
    F = ctx.F
    out = []
    from .guards import PANICKY
    for fl in flavours:
        pp = fl + '::node::algo::path::'
        EDGES = ('f', ('f', P1_, '0'), '0')
        POS = ('f', P1_, '1')
        for im in F.impls:
            if im['trait'] != 'std::iter::Iterator' or not im['self_q'].startswith(pp):
                continue
            nq = [q for q in im['items'] if q.split('::')[-1] == 'next' and q in F.bodies]
            extra = [q for q in im['items'] if q.split('::')[-1] != 'next' and q in F.bodies]
            if not extra:
                out.append(Obl('PATH-hint', im['self_q'], im['span'], 'iterator defines next() only (provided methods are derived from it)', True, 'ok'))
                continue
            # cursor range from next(): the largest c with a read edges[position - c]
            c = 0
            if nq:
                nb = F.bodies[nq[0]]
                npv = F.prov(nb)
                for bi, t in calls_in(nb, lambda t: callee_name(t).endswith(']::get')):
                    it = npv.of_operand(t['args'][1])

                    def scan(z):
                        nonlocal c
                        if isinstance(z, tuple) and z:
                            if z[0] == 'binop' and z[1].startswith('Sub') and deep_unwrap(z[2][0]) == POS and isinstance(z[2][1], tuple) and z[2][1][0] == 'const':
                                m = re.match(r'^(\d+)_usize$', str(z[2][1][1]))
                                if m:
                                    c = max(c, int(m.group(1)))
                            if z[0] == 'call' and z[1].endswith('::saturating_sub') and len(z[2]) == 2 and deep_unwrap(z[2][0]) == POS and isinstance(z[2][1], tuple) and z[2][1][0] == 'const':
                                m = re.match(r'^(\d+)_usize$', str(z[2][1][1]))
                                if m:
                                    c = max(c, int(m.group(1)))
                            for y in z:
                                if isinstance(y, tuple):
                                    scan(y)
                    scan(it)
            for q in extra:
                b = F.bodies[q]
                pv, cfg = F.prov(b), F.cfg(b)
                bad = []
                cmp_blocks = []
                for bi, bb in enumerate(b['blocks']):
                    if bb['cleanup'] or bi not in cfg.reach or bb['term']['k'] != 'switch':
                        continue
                    d = deep_unwrap(pv.of_operand(bb['term']['op']))
                    if isinstance(d, tuple) and d and d[0] == 'binop' and d[1] in ('Lt', 'Le', 'Gt', 'Ge', 'Eq', 'Ne'):
                        cmp_blocks.append((bi, d))
                for bi, bb in enumerate(b['blocks']):
                    if bb['cleanup'] or bi not in cfg.reach:
                        continue
                    t = bb['term']
                    if t['k'] == 'assert':
                        msg = t.get('msg', '')
                        if not re.search(r'Sub|Div|Rem|BoundsCheck|Neg', msg):
                            continue
                        guarded = any(cfg.dominates(cb, bi) and cb != bi for cb, _ in cmp_blocks)
                        if guarded:
                            continue
                        if 'Sub' in msg:
                            ops = None
                            for s in bb['stmts']:
                                if s['k'] == 'assign' and s['rv']['k'] == 'binop' and s['rv'].get('op', '').startswith('Sub'):
                                    ops = s['rv']['ops']
                            if ops:
                                a_, b_ = _lin(pv.of_operand(ops[0]), EDGES, POS), _lin(pv.of_operand(ops[1]), EDGES, POS)
                                if a_ and b_ and a_[0] == 'len' and b_[0] == 'pos' and a_[1] >= c + b_[1]:
                                    continue
                                if a_ and b_ and a_[0] == b_[0] and a_[1] >= b_[1]:
                                    continue
                                if a_ and b_ and b_[0] == 'const' and a_[0] in ('len', 'pos') and a_[1] >= b_[1]:
                                    continue
                                bad.append('%s - %s can underflow: position reaches edges.len() + %d @%s' % (pretty(deep_unwrap(pv.of_operand(ops[0]))), pretty(deep_unwrap(pv.of_operand(ops[1]))), c, t['sp']))
                                continue
                        bad.append('%s@%s' % (msg[:30], t['sp']))
                    if t['k'] == 'call' and (PANICKY.match(callee_name(t)) or PANICKY.match(t['callee'])):
                        if not any(cfg.dominates(cb, bi) and cb != bi for cb, _ in cmp_blocks):
                            bad.append('%s@%s' % (callee_name(t).split('::')[-1], t['sp']))
                out.append(Obl('PATH-hint', q, b['span'], 'overridden %s cannot panic for any cursor value next() produces (0..=len+%d)' % (q.split('::')[-1], c), not bad,
                               'ok' if not bad else '; '.join(bad)))
    return out
