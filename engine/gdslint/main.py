#!/usr/bin/env python3
"""Entry point: ./check <ID> [--tier quick|thorough] [--facts FILE] [--repo DIR] [--explain]

Extracts facts from /repo's current working tree, runs the obligations of one
property, compares failures with the committed known-findings list and writes
evidence/<ID>.json.  Exit 0: property held on everything analysed (known
findings are printed); exit 1: at least one unlisted violation; exit 2: the
tree could not be analysed (does not compile / extractor failure).
"""
import sys, os, json, time, hashlib, subprocess, argparse, collections

HERE = os.path.dirname(os.path.abspath(__file__))
ENGINE = os.path.dirname(HERE)
VERIF = os.path.dirname(ENGINE)
sys.path.insert(0, ENGINE)

from gdslint.ctx import Ctx          # noqa: E402
from gdslint.core import Obl         # noqa: E402
from gdslint import props            # noqa: E402


def load_known(path):
    known, fixed = {}, []
    if not os.path.exists(path):
        return known, fixed
    for line in open(path):
        line = line.strip()
        if not line or line.startswith('#'):
            continue
        if line.startswith('known:'):
            # known: property=C17 key=<rule|func|instance> :: what fails
            body = line[len('known:'):].strip()
            head, _, what = body.partition(' :: ')
            pid = head.split()[0].split('=', 1)[1]
            key = head.split(' key=', 1)[1]
            known.setdefault(pid, {})[key] = what
        elif line.startswith('fixed:'):
            fixed.append(line)
    return known, fixed


def extract(repo, out, tier):
    args = [os.path.join(ENGINE, 'facts.sh'), repo, out]
    r = subprocess.run(args, stdout=subprocess.PIPE, stderr=subprocess.STDOUT, text=True)
    if r.returncode != 0 or not os.path.exists(out):
        sys.stdout.write(r.stdout)
        return False
    return True


def main():
    ap = argparse.ArgumentParser()
    ap.add_argument('pid')
    ap.add_argument('--tier', default=os.environ.get('VERIF_TIER', 'quick'))
    ap.add_argument('--facts')
    ap.add_argument('--repo', default=os.environ.get('GDSL_REPO', '/repo'))
    ap.add_argument('--no-evidence', action='store_true')
    ap.add_argument('--verbose', '-v', action='store_true')
    a = ap.parse_args()
    pid = a.pid
    tier = a.tier if a.tier in ('quick', 'thorough') else 'quick'
    seed = int(os.environ.get('VERIF_SEED', '0') or 0)
    if pid not in props.PROPS:
        print('unknown or unclaimed property', pid)
        return 2
    t0 = time.time()
    work = os.environ.get('GDSL_WORK', os.path.join(VERIF, '.work'))
    os.makedirs(work, exist_ok=True)
    facts = a.facts
    if not facts:
        facts = os.path.join(work, 'facts-%s-%d.json' % (pid, os.getpid()))
        if not extract(a.repo, facts, tier):
            print('ERROR: could not extract facts from %s (tree does not build under the analyser?)' % a.repo)
            return 2
    ctx = Ctx(facts, tier=tier, repo=a.repo, work=work)
    ctx.seed = seed
    ctx.rmeta = facts[:-5] + '.d/libgdsl.rmeta' if facts.endswith('.json') else None
    spec = props.PROPS[pid]
    obligations = []
    errors = []
    for name, fn in spec['rules']:
        try:
            got = fn(ctx)
        except Exception as e:  # an analysis crash is a failed obligation, never a pass
            import traceback
            errors.append('%s: %s' % (name, traceback.format_exc(limit=6)))
            got = [Obl(name, '<engine>', '-', 'rule ran to completion', False, 'engine error: %r' % (e,))]
        obligations += got
    # floors: a rule that matches fewer instances than counted by hand fails closed
    counts = collections.Counter(o['rule'] for o in obligations)
    floors = props.floors_for(pid)
    for rule, n in sorted(floors.items()):
        if counts.get(rule, 0) < n:
            obligations.append(Obl('FLOOR', rule, '-', 'at least %d instances of %s' % (n, rule), False,
                                   'only %d instances matched (anchor vanished?)' % counts.get(rule, 0)))
    known, fixed = load_known(os.path.join(VERIF, 'known_findings.txt'))
    kn = known.get(pid, {})
    viol, kf = [], []
    for o in obligations:
        if o['ok']:
            continue
        if o.key in kn:
            kf.append(o)
        else:
            viol.append(o)
    vdir = os.path.join(VERIF, 'evidence', 'violations')
    for o in kf:
        print('KNOWN-FINDING: property=%s %s :: %s' % (pid, o.key, kn[o.key]))
    seen = set()
    for o in viol:
        h = hashlib.sha1(o.key.encode()).hexdigest()[:12]
        path = os.path.join(vdir, '%s-%s.json' % (pid, h))
        if h not in seen:
            seen.add(h)
            os.makedirs(vdir, exist_ok=True)
            json.dump({'property': pid, 'rule': o['rule'], 'function': o['func'], 'where': o['where'], 'instance': o['instance'],
                       'why': o['why'], 'key': o.key, 'how_to_replay': './check %s  (static: re-run on the same tree)' % pid}, open(path, 'w'), indent=1)
        print('VIOLATION property=%s replay=%s' % (pid, path))
        print('   rule=%s at %s in %s: %s -- %s' % (o['rule'], o['where'], o['func'], o['instance'], o['why']))
    for e in errors:
        print('ENGINE-ERROR', e)
    # thorough: checker self-validation for this property (evidence only; never decides the exit code)
    if tier == 'thorough' and not a.facts:
        try:
            ctx.cache.setdefault('evidence_extra', {}).setdefault(pid, {})['mutation_matrix'] = mutation_matrix(pid, a.repo)
        except Exception as e:
            ctx.cache.setdefault('evidence_extra', {}).setdefault(pid, {})['mutation_matrix'] = {'error': repr(e)}
    wall = time.time() - t0
    if a.verbose:
        for o in obligations:
            print('  [%s] %s %s @%s :: %s :: %s' % ('ok' if o['ok'] else 'FAIL', o['rule'], o['func'], o['where'], o['instance'], o['why']))
    if not a.no_evidence:
        write_evidence(pid, spec, tier, seed, ctx, obligations, viol, kf, counts, floors, wall, facts)
    if not a.facts:
        import shutil
        try:
            os.remove(facts)
        except OSError:
            pass
        shutil.rmtree(facts[:-5] + '.d', ignore_errors=True)
    print('%s: %d obligations, %d discharged, %d known findings, %d violations (%.1fs, tier=%s)' % (
        pid, len(obligations), sum(1 for o in obligations if o['ok']), len(kf), len(viol), wall, tier))
    return 1 if viol else 0


def mutation_matrix(pid, repo):
    """applies every mutant / seeded change that names this property to a scratch copy of the current tree and records whether the check fires"""
    import importlib.util
    spec = importlib.util.spec_from_file_location('mutants', os.path.join(ENGINE, 'mutants.py'))
    mu = importlib.util.module_from_spec(spec)
    spec.loader.exec_module(mu)
    mu.REPO = repo
    idx = mu.load_index()
    sel = {}
    for n, s in idx.items():
        ex = [e for e in s.get('expect', []) if e[0] == pid]
        if ex:
            sel[n] = dict(s, expect=ex)
    sdir = os.path.join(VERIF, 'seeded')
    if os.path.isdir(sdir):
        for n in sorted(os.listdir(sdir)):
            mp = os.path.join(sdir, n, 'meta.json')
            if os.path.exists(mp):
                meta = json.load(open(mp))
                if meta.get('property') == pid:
                    sel['seeded/' + n] = {'expect': [[pid, '']], 'file': os.path.join('..', 'seeded', n, 'patch.diff'), 'kind': 'seeded change (independent sub-agent)'}
    # a few behaviour-preserving edits: the check must stay silent on them
    benign = {n: s for n, s in idx.items() if s.get('benign')}
    res = mu.run_matrix(sel, benign, pid, jobs=8)
    return res


def write_evidence(pid, spec, tier, seed, ctx, obligations, viol, kf, counts, floors, wall, facts):
    F = ctx.F
    funcs = sorted({o['func'] for o in obligations})
    ncalls = sum(1 for b in F.bodies.values() for bb in b['blocks'] if not bb['cleanup'] and bb['term']['k'] == 'call')
    samples = []
    per_rule = collections.OrderedDict()
    for o in obligations:
        per_rule.setdefault(o['rule'], []).append(o)
    for rule, os_ in per_rule.items():
        for o in os_[:2]:
            samples.append({'rule': o['rule'], 'function': o['func'], 'where': o['where'], 'instance': o['instance'], 'ok': o['ok'], 'detail': o['why']})
    level = spec.get('level', 'other')
    discharged = sum(1 for o in obligations if o['ok'])
    cov = {
        'obligations': len(obligations),
        'discharged': discharged,
        'evaluations': len(obligations),
        'distinct_nontrivial': len({o.key for o in obligations}),
        'rule': 'one obligation per (rule, function, instance) recovered from the MIR of the current tree; distinct = distinct keys; all are non-trivial (each names a construct)',
        'samples': samples[:60],
        'explanation': spec['explanation'],
        'checker_cmd': './check %s --tier %s' % (pid, tier),
        'trusted_base': ['rustc nightly front end + MIR construction (mir-opt-level=0)', 'gdsl-facts extractor (engine/driver)', 'gdslint rule engine (engine/gdslint)',
                         'std collections / Rc / Arc / RefCell / RwLock semantics'] + spec.get('trusted', []),
        'rules': {r: {'instances': len(v), 'failed': sum(1 for o in v if not o['ok'])} for r, v in per_rule.items()},
        'floors': floors,
        'functions_named': len(funcs),
        'bodies_in_crate': len(F.bodies),
        'call_sites_in_crate': ncalls,
        'known_findings': [o.key for o in kf],
        'violation_keys': [o.key for o in viol],
        'exhaustive': True,
        'decides': spec.get('decides', ''),
        'does_not_decide': spec.get('does_not_decide', ''),
    }
    cov.update(ctx.cache.get('evidence_extra', {}).get(pid, {}))
    ev = {
        'property_id': pid, 'tier': tier, 'seed': seed, 'level': level, 'coverage': cov,
        'assumptions': spec.get('assumptions', []),
        'wall_s': round(wall, 2), 'violations': len(viol),
    }
    os.makedirs(os.path.join(VERIF, 'evidence'), exist_ok=True)
    tmp = os.path.join(VERIF, 'evidence', '.%s.json.tmp%d' % (pid, os.getpid()))
    json.dump(ev, open(tmp, 'w'), indent=1)
    os.replace(tmp, os.path.join(VERIF, 'evidence', '%s.json' % pid))


if __name__ == '__main__':
    sys.exit(main())
