"""Guard-lifetime rules: G2, G3 / LK1, LK3, LK4, IT1, IT2."""
import re
from .core import Obl, calls_in, callee_name, pretty, strip_payload, unwrap_payload, deep_unwrap, proj_field, term_mentions, term_calls, FLAVOURS, SYNC, PLAIN
from .guards import ACQ, PANICKY, NODE_ITERS, GUARD_SH, GUARD_EX


def _bodies(ctx, flavours):
    F = ctx.F
    # a private helper that was spliced into its callers (inline.py) is judged there, under the caller's name
    ab = getattr(F, 'absorbed', ())
    return [b for q, b in sorted(F.bodies.items()) if F.flavour(b) in flavours and re.sub(r'(::\{closure#\d+\})+$', '', q) not in ab]


def _is_node_next(F, t):
    return t['callee'] == 'std::iter::Iterator::next' and t['gargs'] and NODE_ITERS.search(F.types[t['gargs'][0]].get('p', '') or '')


def g2(ctx, flavours, rule='G2'):
    """no guard is held where user callbacks run or where a node iterator is advanced"""
    F, G = ctx.F, ctx.G()
    out = []
    for b in _bodies(ctx, flavours):
        for bi, t, held in G.call_sites(b):
            usr = G.calls_user(b, t)
            nxt = _is_node_next(F, t)
            if 'callback' not in usr and not nxt:
                continue
            what = 'node-iterator next()' if nxt else 'call that may run a user callback'
            ok = not held
            out.append(Obl(rule, b['q'], t['sp'], '%s: %s' % (what, callee_name(t)), ok,
                           'no guard held' if ok else 'guard(s) held: ' + ', '.join('_%d:%s' % (l, m) for l, m in sorted(held.items()))))
    return out


def g3(ctx, flavours, strict=False, rule=None):
    """no conflicting re-acquisition.  strict (LK1): any acquisition while any guard is held."""
    F, G = ctx.F, ctx.G()
    rule = rule or ('LK1' if strict else 'G3')
    out = []
    for b in _bodies(ctx, flavours):
        fl = F.flavour(b)
        for bi, t, held in G.call_sites(b):
            acq = G.acquires(b, t)
            if not acq:
                continue
            if strict:
                conflict = bool(held)
            else:
                conflict = any(m == 'ex' for m in held.values()) or (bool(held) and 'ex' in acq)
            direct = t['callee'] in ACQ
            inst = '%s acquisition %s: %s' % ('direct' if direct else 'transitive', '/'.join(sorted(acq)), callee_name(t))
            out.append(Obl(rule, b['q'], t['sp'], inst, not conflict,
                           'no guard held' if not held else ('compatible shared guards held' if not conflict else 'acquires %s while holding %s' % ('/'.join(sorted(acq)), ', '.join('_%d:%s' % (l, m) for l, m in sorted(held.items()))))))
    return out


def lk3(ctx, flavours):
    """no panic-capable call while a write guard is held (would poison the lock), outside Adjacent's own methods"""
    F, G = ctx.F, ctx.G()
    out = []
    for b in _bodies(ctx, flavours):
        if b['impl_self_q'].endswith('::adjacent::Adjacent'):
            continue
        for bi, t, held in G.call_sites(b):
            ex = {l: m for l, m in held.items() if m == 'ex'}
            if not ex:
                continue
            c = callee_name(t)
            # consuming the guard-carrying LockResult itself is the acquisition idiom, not a panic under the lock
            if any(a['k'] == 'move' and not a['pl']['p'] and a['pl']['l'] in held for a in t['args']):
                continue
            panicky = bool(PANICKY.match(c)) or bool(PANICKY.match(t['callee']))
            # callee summaries: a crate-local callee that can unwrap
            if not panicky:
                continue
            pv = F.prov(b)
            src = unwrap_payload(pv.of_operand(t['args'][0])) if t['args'] else None
            srcname = src[1].split('::')[-1] if isinstance(src, tuple) and src and src[0] == 'call' else pretty(src)
            out.append(Obl('LK3', b['q'], t['sp'], 'panic-capable call under a write guard: %s of %s' % (c.split('::')[-1], srcname), False,
                           'a panic here poisons the lock held in ' + ', '.join('_%d' % l for l in sorted(ex))))
    # positive instances: every site where an ex guard is held and a call happens, that is fine
    n_ok = 0
    for b in _bodies(ctx, flavours):
        for bi, t, held in G.call_sites(b):
            if any(m == 'ex' for m in held.values()):
                n_ok += 1
    out.append(Obl('LK3-SCAN', ','.join(flavours), '-', 'call sites under a write guard scanned: %d' % n_ok, n_ok > 0, 'scanned' if n_ok else 'no call under a write guard found: scan is vacuous'))
    return out


PUBLIC_MUTATORS = ('connect', 'try_connect', 'disconnect', 'isolate')


def critical_sections(ctx, b, depth=0, seen=None):
    """ordered list of critical sections [(mode, owner-term-pretty)] a call to b may execute (callees inlined, loops marked '*')"""
    F, G = ctx.F, ctx.G()
    seen = seen or set()
    if b['q'] in seen or depth > 4:
        return [('?', 'recursion')]
    seen = seen | {b['q']}
    pv = F.prov(b)
    cfg = F.cfg(b)
    loops = cfg.loops()
    in_loop = set()
    for h, body in loops.items():
        in_loop |= body
    secs = []
    order = sorted(cfg.reach)
    for bi in order:
        bb = b['blocks'][bi]
        t = bb['term']
        if t['k'] != 'call':
            continue
        star = '*' if bi in in_loop else ''
        if t['callee'] in ACQ:
            owner = pv.of_operand(t['args'][0])
            secs.append((ACQ[t['callee']] + star, _owner_role(owner)))
        else:
            for cal in sorted(G.callees_of(b, t)):
                if G.may.get(cal):
                    sub = critical_sections(ctx, F.bodies[cal], depth + 1, seen)
                    args = [pv.of_operand(a) for a in t['args']]
                    for m, o in sub:
                        secs.append((m + star if not m.endswith('*') else m, o if not o.startswith('P') else _subst_role(o, args)))
    return secs


def _owner_role(term):
    """role of the node whose cell is acquired: 'P1' (self), 'P2' (other), 'peer' (looked up / iterated)"""
    t = strip_payload(term)
    # cell(X) = X.0.2  -> X
    if isinstance(t, tuple) and t[0] == 'f' and t[2] == '2' and isinstance(t[1], tuple) and t[1][0] == 'f' and t[1][2] == '0':
        x = strip_payload(t[1][1])
        while isinstance(x, tuple) and x[0] == 'f' and not (x[1] and x[1][0] == 'param' and False):
            if x[0] == 'f' and isinstance(x[1], tuple) and x[1][0] == 'param':
                return 'P%d.%s' % (x[1][1], x[2])
            x = strip_payload(x[1])
        if isinstance(x, tuple) and x[0] == 'param':
            return 'P%d' % x[1]
        return 'peer'
    return 'peer'


def _subst_role(role, args):
    m = re.match(r'P(\d+)(\..*)?$', role)
    if not m:
        return role
    i = int(m.group(1)) - 1
    if i < len(args):
        a = strip_payload(args[i])
        if m.group(2):
            # P1.<field> of an iterator built by Node::iter*(Pk): the iterated node is Pk
            for c in term_calls(a):
                if re.search(r'::node::Node::(iter_out|iter_in|iter)$|IntoIterator>::into_iter$', c[1]) and c[2]:
                    x = strip_payload(c[2][0])
                    if isinstance(x, tuple) and x[0] == 'param':
                        return 'P%d' % x[1]
        if isinstance(a, tuple) and a[0] == 'param' and not m.group(2):
            return 'P%d' % a[1]
        if isinstance(a, tuple) and a[0] == 'f' and isinstance(a[1], tuple) and a[1][0] == 'param' and not m.group(2):
            return 'P%d.%s' % (a[1][1], a[2])
    return 'peer'


def lk4(ctx, flavours):
    """atomicity: every public mutating node operation is one critical section (else reported with its section multiset)"""
    F = ctx.F
    out = []
    for fl in flavours:
        for name in PUBLIC_MUTATORS:
            b = F.find(fl, 'node::Node::' + name)
            if b is None:
                out.append(Obl('LK4', '%s::node::Node::%s' % (fl, name), '-', 'public mutator present', False, 'anchor missing'))
                continue
            secs = critical_sections(ctx, b)
            ex = [s for s in secs]
            multiset = sorted('%s(%s)' % s for s in ex)
            # the finding is identified by *which* locks are taken in which mode (a set: how often, and whether in a loop, changes with
            # harmless restyling); the detail line carries the exact multiset
            kinds = sorted({'%s(%s)' % (m.rstrip('*'), o) for m, o in ex})
            ok = len(ex) <= 1 and not any(m.endswith('*') for m, _ in ex)
            out.append(Obl('LK4', b['q'], b['span'], 'critical sections on {%s}' % ', '.join(kinds), ok,
                           'single critical section' if ok else 'compound operation: %d separate critical sections {%s}; intermediate states are visible to other threads' % (len(ex), ', '.join(multiset))))
    return out


def lk5(ctx, flavours):
    """positions do not survive a lock release: no index (usize) computed from data read under one acquisition of a node's
    lock is handed to a list operation performed under another acquisition (the list may have changed in between)"""
    from .rules_edge import model
    from .core import term_calls
    F, G = ctx.F, ctx.G()
    out = []
    VEC_POS = re.compile(r'^std::vec::Vec::(remove|swap_remove|insert|split_off|truncate|drain)$|::index(_mut)?$|^\[T\]::(get|get_mut|swap|split_at\w*)$')
    for fl in flavours:
        M = model(ctx, fl)
        for b in F.by_flavour(fl):
            if b['kind'] == 'Closure' or b['q'] in getattr(F, 'absorbed', ()) or not b.get('impl_self_q', '').endswith('::node::Node') or b.get('impl_trait'):
                continue
            pv = F.prov(b)
            why = []
            n = 0
            for bi, t in calls_in(b):
                res = t.get('res') if t.get('local') else None
                if not ((res in M.methods) or VEC_POS.search(callee_name(t))) or not t['args']:
                    continue
                recv = pv.of_operand(t['args'][0])
                racq = {c[3] for c in term_calls(recv) if c[1] in ACQ}
                if not racq:
                    continue
                for a in t['args'][1:]:
                    if a['k'] not in ('copy', 'move') or F.types[b['locals'][a['pl']['l']]].get('s') != 'usize' or a['pl']['p']:
                        continue
                    n += 1
                    term = pv.of_operand(a)
                    src = {c[3] for c in term_calls(term) if c[1] in ACQ}
                    opaque = [c[1] for c in term_calls(term) if c[1] in F.bodies and G.may.get(c[1])]
                    if src - racq:
                        why.append('%s at %s receives an index computed under another acquisition of the lock (%s)' % (callee_name(t).split('::')[-1], t['sp'], pretty(term)[:70]))
                    elif opaque:
                        why.append('%s at %s receives an index returned by %s, which takes the lock on its own' % (callee_name(t).split('::')[-1], t['sp'], opaque[0].split('::')[-1]))
            out.append(Obl('LK5', b['q'], b['span'], 'no position computed under one critical section is used in another', not why, '; '.join(why) if why else '%d positional arguments, all computed under the same guard or not from the lists' % n))
    return out


def lk6(ctx, flavours):
    """weak peer handles do not leave the critical section they were read in: outside `impl Adjacent` / `impl WeakNode`, no value
    that *owns* a WeakNode (a clone, a Vec of them) is produced -- except by `WeakNode::downgrade`, which connect() hands straight
    to the list.  A `&WeakNode` is tied to its guard by the borrow checker; an owned copy can be upgraded after the guard is gone,
    when a concurrent disconnect + drop may already have released the peer (upgrade() == None)."""
    F = ctx.F
    out = []

    def owns_weak(ti, fl, seen=None):
        seen = seen if seen is not None else set()
        if ti in seen:
            return False
        seen.add(ti)
        t = F.types[ti]
        if t['k'] in ('ref', 'ptr', 'fnptr', 'fndef', 'closure'):
            return False
        if t['k'] == 'adt' and t.get('p') == fl + '::node::adjacent::WeakNode':
            return True
        if t['k'] == 'adt' and t.get('p') in (fl + '::node::adjacent::Adjacent', 'std::sync::RwLock', 'std::cell::RefCell', fl + '::node::Node', 'std::sync::Arc', 'std::rc::Rc',
                                                 'std::sync::RwLockReadGuard', 'std::sync::RwLockWriteGuard', 'std::cell::Ref', 'std::cell::RefMut'):
            return False       # the lists themselves (and what owns them) stay where they are
        return any(owns_weak(a, fl, seen) for a in t.get('a', []))
    for fl in flavours:
        n = 0
        for b in F.by_flavour(fl):
            owner = F.bodies.get(re.sub(r'(::\{closure#\d+\})+$', '', b['q']), b)
            if owner.get('impl_self_q') in (fl + '::node::adjacent::Adjacent', fl + '::node::adjacent::WeakNode'):
                continue
            bad = []
            for bi, t in calls_in(b):
                dl = t['dst']['l']
                if t['dst']['p'] or not owns_weak(b['locals'][dl], fl):
                    continue
                n += 1
                if callee_name(t).endswith('::WeakNode::downgrade'):
                    continue
                bad.append('%s at %s yields an owned %s' % (callee_name(t).split('::')[-1], t['sp'], F.types[b['locals'][dl]]['s'][:60]))
            if bad:
                out.append(Obl('LK6', b['q'], b['span'], 'no owned weak peer handle outside the adjacency module', False, '; '.join(bad)))
        out.append(Obl('LK6', fl, '-', 'owned WeakNode values outside impl Adjacent / WeakNode come from downgrade() only', True, '%d producing call sites outside the adjacency module' % n))
    return out


def lk7(ctx, flavours):
    """a lookup may decide WHETHER an operation mutates, not WHICH mutation it performs: the outcome of a read-only query (taken
    under an earlier, already released acquisition) must not select between two different list mutations -- by the time the
    chosen one runs another thread may have made the other one the right choice, and nothing falls back to it.  Choosing by the
    outcome of a mutation itself (`match remove_inbound(..) { Ok => .., Err => remove_outbound(..) }`) is the sound form."""
    from .rules_edge import model, mutator_reach
    from .effects import node_events
    from .core import term_calls
    F, G = ctx.F, ctx.G()
    out = []
    for fl in flavours:
        M = model(ctx, fl)
        reach_m, _ = mutator_reach(ctx, fl)
        for b in F.by_flavour(fl):
            if b['kind'] == 'Closure' or b['q'] in getattr(F, 'absorbed', ()) or not b.get('impl_self_q', '').endswith('::node::Node') or b.get('impl_trait'):
                continue
            evs = [e for e in node_events(F, M, b) if M.muts(e[1])]
            if len(evs) < 2:
                continue
            cfg, pv = F.cfg(b), F.prov(b)
            R = cfg.can_return()
            why = []
            for sb in sorted(cfg.reach):
                t = b['blocks'][sb]['term']
                if t['k'] != 'switch':
                    continue
                term = pv.of_operand(t['op'])
                calls = term_calls(term)
                is_query = False
                if any(c[1].endswith('Iterator>::next') or c[1] == 'std::iter::Iterator::next' for c in calls):
                    continue      # a loop stepping its iterator: "more edges / done", not a choice between mutations
                for c in calls:
                    cn = c[1]
                    if cn in M.methods and not M.muts(cn):
                        is_query = True
                    elif cn in F.bodies and F.flavour(F.bodies[cn]) == fl and cn not in reach_m and G.may.get(cn):
                        is_query = True
                    if cn in M.methods and M.muts(cn):
                        is_query = False      # the outcome of a mutation: re-validated by the mutation itself
                        break
                if not is_query:
                    continue
                succs = [(v, tg) for v, tg in t['targets']] + [('else', t['otherwise'])]
                sides = []
                for v, tg in succs:
                    if tg not in R:
                        continue
                    ms = sorted({(e[1].split('::')[-1], pretty(e[2])) for e in evs if cfg.edge_dominates(sb, tg, e[0])})
                    if ms:
                        sides.append(ms)
                if len(sides) >= 2 and any(x != sides[0] for x in sides[1:]):
                    why.append('the query tested at %s selects between different mutations (%s): check-then-act across critical sections' % (
                        F.where(b, sb), ' | '.join(','.join(m for m, _ in sd) for sd in sides)))
            out.append(Obl('LK7', b['q'], b['span'], 'no lookup outcome selects between two different list mutations', not why, '; '.join(why) if why else 'mutations are chosen by the outcome of mutations only'))
    return out


def fresh(ctx, flavours):
    """an edge handed to a user callback is the one just read from the live list: between the node-iterator step that produced
    the edge and the callback call that receives it no call runs that can walk further edges and run callbacks on them (a
    recursive descent, a nested traversal) -- by the time it returns those callbacks may have removed the edge"""
    from .core import term_calls
    F, G = ctx.F, ctx.G()
    out = []
    bodies = _bodies(ctx, flavours)
    # functions that (transitively) step a node iterator
    steps = set()
    cg = {}
    for q, b in F.bodies.items():
        cs = set()
        for bi, t in calls_in(b):
            if _is_node_next(F, t):
                steps.add(q)
            cs |= G.callees_of(b, t)
        cg[q] = cs
    ch = True
    while ch:
        ch = False
        for q, cs in cg.items():
            if q not in steps and cs & steps:
                steps.add(q); ch = True
    for b in bodies:
        if '::node::algo::' not in b['q']:
            continue
        calls = dict(calls_in(b))
        cb = {bi for bi, t in calls.items() if 'callback' in G.calls_user(b, t)}
        if not cb:
            continue
        nx = {bi for bi, t in calls.items() if _is_node_next(F, t)}
        trav = {bi for bi in cb if G.callees_of(b, calls[bi]) & steps}
        cfg, pv = F.cfg(b), F.prov(b)
        for c in sorted(cb):
            t = calls[c]
            if c in trav:
                continue
            roots = set()
            for a in t['args']:
                for x in term_calls(pv.of_operand(a)):
                    if len(x) > 3 and x[3] in nx:
                        roots.add(x[3])
            if not roots:
                continue
            seen, todo, bad = set(), list(cfg.pred[c]), None
            while todo and bad is None:
                p_ = todo.pop()
                if p_ in seen or p_ not in cfg.reach:
                    continue
                seen.add(p_)
                if p_ in nx:
                    continue
                if p_ in trav:
                    bad = p_
                    break
                todo.extend(cfg.pred[p_])
            out.append(Obl('LIVE-EDGE', b['q'], t['sp'], 'callback receives the edge just read: %s' % callee_name(t), bad is None,
                           'no traversal step between the iterator step and the callback' if bad is None else
                           '%s at %s can walk further edges and run callbacks between the iterator step that read this edge and the callback that is handed it' % (callee_name(calls[bad]), F.where(b, bad))))
    return out


def lk8(ctx, flavours):
    """no operation waits for another thread: a loop that is left on the *success* outcome of an operation under a node lock and
    repeated on its failure (retry until the other thread has caught up) has no bound of its own -- two such operations, or one
    and an operation that has already taken the awaited entry away, spin forever.  Loops driven by an iterator / pop (left when
    it is exhausted) and loops left on the failure outcome (drain until empty) are bounded by the data and not concerned."""
    F, G = ctx.F, ctx.G()
    out = []
    STEP = re.compile(r'Iterator>::next$|Iterator::next$|::pop_front$|::pop_back$|::pop$|::next_element$|::next_back$')
    for b in _bodies(ctx, flavours):
        cfg = F.cfg(b)
        ls = cfg.loops()
        if not ls:
            continue
        pv = F.prov(b)
        bad = []
        n = 0
        for h, body in sorted(ls.items()):
            n += 1
            exits = [(x, y) for x in sorted(body) for y in cfg.succ[x] if y not in body and x in cfg.reach]
            driven = False
            waits = []
            for x, y in exits:
                t = b['blocks'][x]['term']
                if t['k'] != 'switch':
                    continue
                term = pv.of_operand(t['op'])
                calls = term_calls(term)
                vals = [v for v, tg in t['targets'] if tg == y]
                other = (y == t['otherwise'])
                if isinstance(term, tuple) and term and term[0] == 'discr' and any(STEP.search(c[1]) for c in term_calls(term[1])[:1]):
                    driven = True
                    continue
                acq = any(c[1] in ACQ or (c[1] in F.bodies and G.may.get(c[1])) for c in calls)
                if not acq:
                    continue
                pol = None
                if isinstance(term, tuple) and term and term[0] == 'discr':
                    names = None
                    for st in b['blocks'][x]['stmts']:
                        if st['k'] == 'assign' and st['rv']['k'] == 'discr' and st['rv'].get('variants'):
                            names = st['rv']['variants']
                    if names:
                        taken = [names[v] for v in vals if v < len(names)]
                        if other:
                            taken += [nm for i, nm in enumerate(names) if i not in [v for v, _ in t['targets']]]
                        if taken and all(nm in ('Some', 'Ok') for nm in taken):
                            pol = 'success'
                        elif taken and all(nm in ('None', 'Err') for nm in taken):
                            pol = 'failure'
                elif isinstance(term, tuple) and term and term[0] == 'call':
                    last = term[1].split('::')[-1]
                    truth = (vals != [0]) if vals else other and [v for v, _ in t['targets']] == [0]
                    if vals == [0]:
                        truth = False
                    if last in ('is_err', 'is_none'):
                        pol = 'failure' if truth else 'success'
                    elif last in ('is_ok', 'is_some'):
                        pol = 'success' if truth else 'failure'
                if pol == 'success':
                    waits.append('left at %s only when %s succeeds' % (F.where(b, x), ([c[1].split('::')[-1] for c in calls if c[1] in F.bodies] or ['the locked operation'])[0]))
            if waits and not driven:
                bad.append('loop at %s %s and repeats it on failure: it waits for another thread' % (F.where(b, h), '; '.join(waits)))
        out.append(Obl('LK8', b['q'], b['span'], 'no retry-until-success loop around a locked operation (%d loop(s))' % n, not bad, '; '.join(bad) if bad else 'every loop is driven by its data'))
    return out


def lk_try(ctx, flavours):
    """the outcome of an operation must not depend on contention: no try_read / try_write / try_lock (a failed try is reported to
    the caller as a data outcome -- 'no such edge' -- that no sequential order of the operations explains)"""
    F = ctx.F
    out = []
    TRY = ('std::sync::RwLock::try_read', 'std::sync::RwLock::try_write', 'std::sync::Mutex::try_lock')
    for fl in flavours:
        for b in F.by_flavour(fl):
            if b['kind'] == 'Closure' or b['q'] in getattr(F, 'absorbed', ()):
                continue
            acq = [(bi, t) for bi, t in calls_in(b) if t['callee'] in ACQ]
            if not acq:
                continue
            bad = ['%s at %s' % (t['callee'].split('::')[-1], t['sp']) for bi, t in acq if t['callee'] in TRY]
            if bad and b['impl_trait'] == 'std::iter::Iterator' and b['name'] == 'size_hint':
                # advisory by contract: an under-informed hint (what a failed try produces) is a valid hint, and a hint is never
                # part of an operation's result; what the hint may compute with is IT3's business
                out.append(Obl('LK-TRY', b['q'], b['span'], 'size_hint may decline to wait (advisory value)', True, 'non-blocking acquisition in an advisory method: ' + ', '.join(bad)))
                continue
            out.append(Obl('LK-TRY', b['q'], b['span'], 'every acquisition waits for the lock (%d acquisition sites)' % len(acq), not bad,
                           'blocking acquisitions only' if not bad else 'non-blocking acquisition whose failure becomes a result: ' + ', '.join(bad)))
    return out


ITER_STRUCTS = ('IterOut', 'IterIn', 'NodeIterator', 'PathEdgeIterator', 'PathNodeIterator', 'Bfs', 'Dfs', 'Pfs', 'Order', 'Path', 'Edge', 'Graph')


def it1(ctx, flavours):
    """no iterator / builder / result type stores a guard (nothing retains a borrow or lock between steps)"""
    F = ctx.F
    out = []
    for path, adt in sorted(F.adts.items()):
        fl = path.split('::')[0]
        if fl not in flavours:
            continue
        bad = []
        for v in adt['variants']:
            for f in v['fields']:
                for ty in F.ty_walk(f['ty']):
                    if ty['k'] == 'adt' and (GUARD_SH.match(ty['p']) or GUARD_EX.match(ty['p'])):
                        bad.append('%s: %s' % (f['name'], ty['s']))
        out.append(Obl('IT1', path, adt['span'], 'type holds no guard', not bad, 'fields: ' + '; '.join(bad) if bad else 'no field type contains Ref/RefMut/RwLock*Guard'))
    return out


def it2(ctx, flavours):
    """node-iterator next(): one shared acquisition of the iterated node's cell; the yielded edge is the entry at
    `position` read under that guard (peer = upgrade(entry.0), value = clone(entry.1), near = the iterated node);
    position advances on the Some path only"""
    F, G = ctx.F, ctx.G()
    out = []
    # IT0: a node iterator is always built as (this node, position 0)
    for fl in flavours:
        for b in F.by_flavour(fl):
            if b['kind'] == 'Closure':
                continue
            pv0 = F.prov(b)
            for bb in b['blocks']:
                if bb['cleanup']:
                    continue
                for s_ in bb['stmts']:
                    if s_['k'] != 'assign' or s_['rv']['k'] != 'aggr' or not s_['rv']['ak'].startswith('adt:'):
                        continue
                    path = s_['rv']['ak'][4:].rsplit('::', 1)[0]
                    if not NODE_ITERS.search(path) or path not in F.adts:
                        continue
                    flds = F.adts[path]['variants'][0]['fields']
                    why0 = []
                    for i, f in enumerate(flds):
                        tm = strip_payload(pv0.of_operand(s_['rv']['ops'][i]))
                        if F.types[f['ty']].get('s') == 'usize' and tm != ('const', '0_usize'):
                            why0.append('%s starts at %s' % (f['name'], pretty(tm)))
                        if F.ty_has_adt(f['ty'], r'::node::Node$') and tm != ('param', 1):
                            why0.append('%s is %s, not the node the iterator was asked of' % (f['name'], pretty(tm)))
                    out.append(Obl('IT0', b['q'], s_['sp'], 'node iterator built as (self, position 0)', not why0, '; '.join(why0) if why0 else path.split('::')[-1]))
    for fl in flavours:
        its = [b for b in F.by_flavour(fl) if b['impl_trait'] == 'std::iter::Iterator' and b['name'] == 'next' and NODE_ITERS.search(b['impl_self_q'])]
        if not its:
            out.append(Obl('IT2', fl, '-', 'node iterators present', False, 'no node iterator found'))
        for b in its:
            pv, cfg = F.prov(b), F.cfg(b)
            why = []
            acqs = [(bi, t) for bi, t in calls_in(b) if t['callee'] in ACQ]
            trans = [(bi, t) for bi, t, held in G.call_sites(b) if t['callee'] not in ACQ and G.acquires(b, t)]
            adt = F.adts[b['impl_self_q']]
            fn = {f['name']: str(i) for i, f in enumerate(adt['variants'][0]['fields'])}
            node_f = [str(i) for i, f in enumerate(adt['variants'][0]['fields']) if F.ty_has_adt(f['ty'], r'::node::Node$')]
            pos_f = [str(i) for i, f in enumerate(adt['variants'][0]['fields']) if F.types[f['ty']]['s'] == 'usize']
            if len(node_f) != 1 or len(pos_f) != 1:
                out.append(Obl('IT2', b['q'], b['span'], 'iterator = (node, position)', False, 'iterator struct is not (node reference, usize position)'))
                continue
            NODE = ('f', ('param', 1), node_f[0])
            POS = ('f', ('param', 1), pos_f[0])
            CELL = ('f', ('f', NODE, '0'), '2')
            if len(acqs) != 1 or trans:
                why.append('%d direct and %d transitive acquisitions (expected exactly one)' % (len(acqs), len(trans)))
            else:
                abi, at = acqs[0]
                if ACQ[at['callee']] != 'sh':
                    why.append('acquisition is exclusive')
                if strip_payload(pv.of_operand(at['args'][0])) != CELL:
                    why.append('acquires %s, not the iterated node\'s cell' % pretty(pv.of_operand(at['args'][0])))
            # entry read: a local Adjacent getter called with (guard, position)
            gets = [(bi, t) for bi, t in calls_in(b) if t.get('local') and t['res'].endswith(tuple('::adjacent::Adjacent::' + g for g in ('get_outbound', 'get_inbound', 'get_adjacent')))]
            gets = [(bi, t) for bi, t in calls_in(b) if t.get('local') and '::adjacent::Adjacent::' in t['res'] and len(t['args']) == 2 and F.types[b['locals'][t['args'][1]['pl']['l']]]['s'] == 'usize'] if not gets else gets
            entry = None
            if len(gets) != 1:
                why.append('%d indexed reads of the adjacency (expected one)' % len(gets))
            else:
                gbi, gt = gets[0]
                if strip_payload(pv.of_operand(gt['args'][1])) != POS:
                    why.append('reads index %s, not self.position' % pretty(pv.of_operand(gt['args'][1])))
                recv = pv.of_operand(gt['args'][0])
                if not term_mentions(recv, lambda z: isinstance(z, tuple) and z and z[0] == 'call' and z[1] in ACQ):
                    why.append('adjacency read is not through the guard')
                entry = proj_field(('v', ('call', gt['res'], tuple(pv.of_operand(a) for a in gt['args']), gbi), 'Some#1'), '0')
                # success edge of the getter's outcome (match / if let / `?`)
                from .core import outcome_edges
                some_edge, _none = outcome_edges(F, b, gbi)
                # position stores
                stores = []
                for bi, bb in enumerate(b['blocks']):
                    if bb['cleanup'] or bi not in cfg.reach:
                        continue
                    for s in bb['stmts']:
                        if s['k'] == 'assign' and s['dst']['p'] and s['dst']['p'][-1].split(':')[0] == '.' + pos_f[0] and strip_payload(pv.of_local(s['dst']['l'])) == ('param', 1):
                            stores.append((bi, s))
                        elif s['k'] == 'assign' and s['dst']['p'] == ['*'] and strip_payload(pv.of_local(s['dst']['l'])) == POS:
                            stores.append((bi, s))      # through a `&mut self.position` (captured by a spliced closure)
                if len(stores) != 1:
                    why.append('%d stores to position (expected one increment)' % len(stores))
                else:
                    sbi, ss = stores[0]
                    term = pv.of_operand(ss['rv']['ops'][0]) if ss['rv'].get('ops') else None
                    inc = isinstance(term, tuple) and term[0] == 'f' and isinstance(term[1], tuple) and term[1][0] == 'binop' and term[1][1].startswith('Add') and \
                        POS in [strip_payload(z) for z in term[1][2]] and ('const', '1_usize') in term[1][2]
                    inc = inc or (isinstance(term, tuple) and term[0] == 'binop' and term[1].startswith('Add') and POS in [strip_payload(z) for z in term[2]] and ('const', '1_usize') in term[2])
                    if not inc:
                        why.append('position store is not position + 1: %s' % pretty(term))
                    if some_edge is None or not cfg.edge_dominates(some_edge[0], some_edge[1], sbi):
                        why.append('position advances on a path where no entry was read')
                    # ... and on every path that yields an item: no path entry -> `_0 = Some(..)` -> return around the store
                    def _reach(starts):
                        seen_, todo_ = set(starts), list(starts)
                        while todo_:
                            x_ = todo_.pop()
                            for y_ in cfg.succ[x_]:
                                if y_ in seen_ or y_ == sbi or b['blocks'][y_]['cleanup']:
                                    continue
                                seen_.add(y_)
                                todo_.append(y_)
                        return seen_
                    if sbi != 0:
                        fwd_ = _reach({0})
                        for yb, ybb in enumerate(b['blocks']):
                            if yb in fwd_ and not ybb['cleanup'] and any(s_['k'] == 'assign' and s_['dst']['l'] == 0 and not s_['dst']['p'] and s_['rv']['k'] == 'aggr' and
                                                                          s_['rv']['ak'].endswith('Option::Some') for s_ in ybb['stmts']):
                                if any(b['blocks'][x_]['term']['k'] == 'return' for x_ in _reach({yb})):
                                    why.append('an edge is yielded on a path that does not advance the cursor')
                                    break
            # yielded edge
            somes = []
            for bi, bb in enumerate(b['blocks']):
                if bb['cleanup'] or bi not in cfg.reach:
                    continue
                for s in bb['stmts']:
                    if s['k'] == 'assign' and s['dst']['l'] == 0 and s['rv']['k'] == 'aggr' and s['rv']['ak'].endswith('Option::Some'):
                        somes.append(pv.of_operand(s['rv']['ops'][0]))
            if len(somes) != 1:
                why.append('%d Some(..) results' % len(somes))
            elif entry is not None:
                e = somes[0]
                if not (isinstance(e, tuple) and e[0] == 'aggr' and e[1].endswith('::Edge::Edge') and len(e[2]) == 3):
                    why.append('yield is not an Edge aggregate: ' + pretty(e))
                else:
                    a, bb_, c = e[2]
                    ent0 = ('f', entry, '0')
                    ent1 = ('f', entry, '1')

                    def is_peer(z):
                        # the stored peer, upgraded from its weak reference -- or the stored handle itself (which of the two is C19's business)
                        z = unwrap_payload(z)
                        # `upgrade().unwrap_or_else(|| panic!(..))`: with a closure that never returns this is `unwrap()`
                        if isinstance(z, tuple) and z and z[0] == 'call' and z[1].endswith('Option::unwrap_or_else') and len(z[2]) == 2:
                            clo_ = z[2][1]
                            while isinstance(clo_, tuple) and clo_ and clo_[0] == 'v':
                                clo_ = clo_[1]
                            cb_ = F.bodies.get(clo_[1][len('closure:'):]) if isinstance(clo_, tuple) and clo_ and clo_[0] == 'aggr' and str(clo_[1]).startswith('closure:') else None
                            if cb_ is not None and not any(bb_['term']['k'] == 'return' and i_ in F.cfg(cb_).reach for i_, bb_ in enumerate(cb_['blocks']) if not bb_['cleanup']):
                                z = unwrap_payload(z[2][0])
                        if isinstance(z, tuple) and z[0] == 'call' and z[1].endswith('::WeakNode::upgrade') and _proj_eq(z[2][0], entry, '0'):
                            return True
                        return _proj_eq(z, entry, '0')

                    def is_near(z):
                        return strip_payload(z) == NODE
                    val_ok = _proj_eq(c, entry, '1')
                    if not val_ok:
                        why.append('edge value is %s, not the stored entry\'s value' % pretty(c))
                    if is_near(a) and is_peer(bb_):
                        orient = 'near-first'
                    elif is_peer(a) and is_near(bb_):
                        orient = 'peer-first'
                    else:
                        orient = None
                        why.append('endpoints are (%s, %s): not {iterated node, upgraded entry peer}' % (pretty(a), pretty(bb_)))
                    ctx.cache.setdefault('it2_orient', {})[b['q']] = (orient, gets[0][1]['res'] if gets else None)
            # a step never panics on a state that node operations can produce: the only tolerated panic is "the stored peer was
            # dropped" (the failure outcome of upgrade(), excluded by "live nodes") and lock poisoning
            from .core import outcome_edges as _oe
            up_fail = []
            for ubi, ut in calls_in(b, lambda t_: callee_name(t_).endswith('::WeakNode::upgrade')):
                se_, fe_ = _oe(F, b, ubi)
                if fe_:
                    up_fail.append(fe_)
            for pbi, pbb in enumerate(b['blocks']):
                if pbb['cleanup'] or pbi not in cfg.reach:
                    continue
                pt = pbb['term']
                site = None
                if pt['k'] == 'assert' and not re.search(r'Overflow\(Add', pt.get('msg', '')):
                    site = pt.get('msg', 'assert')[:40]
                elif pt['k'] == 'call' and (PANICKY.match(callee_name(pt)) or PANICKY.match(pt['callee'])) and not callee_name(pt).startswith('std::cell::RefCell::'):
                    nm_ = callee_name(pt)
                    if nm_.split('::')[-1] in ('unwrap', 'expect') and pt['args']:
                        at_ = pv.of_operand(pt['args'][0])
                        a0_ = strip_payload(at_)
                        if isinstance(a0_, tuple) and a0_ and a0_[0] == 'call' and (a0_[1].endswith('::WeakNode::upgrade') or a0_[1] in ACQ):
                            continue        # upgrade().unwrap() / read().unwrap()
                        if any(ty['k'] == 'adt' and ty['p'] == 'std::sync::PoisonError' for ty in F.ty_walk(b['locals'][pt['args'][0]['pl']['l']])) if pt['args'][0].get('k') in ('move', 'copy') else False:
                            continue
                    site = nm_.split('::')[-1]
                if site is None:
                    continue
                if any(cfg.edge_dominates(fe_[0], fe_[1], pbi) for fe_ in up_fail):
                    continue
                why.append('can panic (%s at %s) although the peer is alive' % (site, pt['sp']))
            out.append(Obl('IT2', b['q'], b['span'], 'next(): one shared lock step, live entry at position, true endpoints and value', not why, '; '.join(why) if why else 'ok'))
    return out


def _proj_eq(term, entry, idx):
    """term == entry.idx modulo payload wrappers (match binding, `?`, unwrap)"""
    from .core import deep_unwrap
    return deep_unwrap(term) == deep_unwrap(('f', entry, idx))


def it3(ctx, flavours):
    """IT3: node iterators rely on next() alone -- or, if they override other Iterator methods, those can neither panic
    (arithmetic on a cursor that may exceed a list that shrank meanwhile) nor hold a guard across user code"""
    F = ctx.F
    out = []
    for fl in flavours:
        for im in F.impls:
            if im['trait'] != 'std::iter::Iterator' or not NODE_ITERS.search(im['self_q']) or not im['self_q'].startswith(fl + '::'):
                continue
            extra = [q for q in im['items'] if q.split('::')[-1] != 'next' and q in F.bodies]
            if not extra:
                out.append(Obl('IT3', im['self_q'], im['span'], 'iterator defines next() only (provided methods are derived from it)', True, 'ok'))
                continue
            for q in extra:
                b = F.bodies[q]
                bad = []
                for bi, bb in enumerate(b['blocks']):
                    if bb['cleanup']:
                        continue
                    t = bb['term']
                    if t['k'] == 'assert' and re.search(r'Sub|Div|Rem|BoundsCheck|Neg', t.get('msg', '')):
                        bad.append('%s@%s' % (t.get('msg', '')[:30], t['sp']))
                    if t['k'] == 'call' and (PANICKY.match(callee_name(t)) or PANICKY.match(t['callee'])) and not callee_name(t).startswith('std::cell::RefCell::'):
                        if t['args'] and t['args'][0].get('k') in ('move', 'copy') and any(ty['k'] == 'adt' and ty['p'] == 'std::sync::PoisonError' for ty in F.ty_walk(b['locals'][t['args'][0]['pl']['l']])):
                            continue
                        bad.append('%s@%s' % (callee_name(t).split('::')[-1], t['sp']))
                out.append(Obl('IT3', q, b['span'], 'overridden %s cannot panic when the list changed under the cursor' % q.split('::')[-1], not bad,
                               'ok' if not bad else 'panic site(s): ' + ', '.join(bad) + ' (the cursor may exceed the current list length after a removal)'))
    return out
