"""A-GUARD: forward 'guards held' dataflow over MIR, with function summaries.

A guard is a local whose type contains Ref / RefMut / RwLockReadGuard /
RwLockWriteGuard (also inside Result<_, PoisonError<_>>).  It is born at the call
that returns it, moves through calls that take it by move and return a guard
(unwrap, map), and dies at drop(_n), StorageDead(_n) or a move-out.
"""
import re
from .core import calls_in, callee_name

GUARD_SH = re.compile(r'^(std::cell::Ref|std::sync::RwLockReadGuard|std::sync::MappedRwLockReadGuard)$')
GUARD_EX = re.compile(r'^(std::cell::RefMut|std::sync::RwLockWriteGuard|std::sync::MappedRwLockWriteGuard)$')
ACQ = {
    'std::cell::RefCell::borrow': 'sh', 'std::cell::RefCell::borrow_mut': 'ex',
    'std::cell::RefCell::try_borrow': 'sh', 'std::cell::RefCell::try_borrow_mut': 'ex',
    'std::sync::RwLock::read': 'sh', 'std::sync::RwLock::write': 'ex',
    'std::sync::RwLock::try_read': 'sh', 'std::sync::RwLock::try_write': 'ex',
    'std::sync::Mutex::lock': 'ex', 'std::sync::Mutex::try_lock': 'ex',
}
PANICKY = re.compile(r'^(std::option::Option::(unwrap|expect)|std::result::Result::(unwrap|expect|unwrap_err|expect_err)|'
                     r'core::panicking::.*|std::rt::.*panic.*|std::ops::Index::index|std::ops::IndexMut::index_mut|<.* as std::ops::Index(Mut)?<.*>>::index(_mut)?|'
                     r'std::vec::Vec::(remove|swap_remove|insert|split_off|drain|split_at\w*|copy_from_slice)|core::option::unwrap_failed|core::result::unwrap_failed|'
                     r'std::string::String::(truncate|remove|insert|insert_str|split_off|drain|replace_range)|str::(split_at\w*)|\[T\]::(split_at\w*|copy_from_slice|swap|chunks\w*|windows)|'
                     r'std::collections::VecDeque::(remove|insert|swap|split_off)|std::cell::RefCell::(borrow|borrow_mut)|std::process::(exit|abort)|std::thread::sleep)$')
FN_TRAITS = ('std::ops::FnMut::call_mut', 'std::ops::Fn::call', 'std::ops::FnOnce::call_once')
NODE_ITERS = re.compile(r'::node::(IterOut|IterIn|NodeIterator)$')


class GuardAnalysis:
    def __init__(self, facts):
        self.F = facts
        self.direct = {}
        self.cg = {}
        self.user_direct = {}
        self._local_trait_impls = None
        for q, b in facts.bodies.items():
            self.direct[q] = set()
            self.user_direct[q] = set()
            self.cg[q] = set()
            for bi, t in calls_in(b):
                c = t['callee']
                if c in ACQ:
                    self.direct[q].add(ACQ[c])
                k = self.user_kind(t)
                if k:
                    self.user_direct[q].add(k)
                self.cg[q] |= self.callees_of(b, t)
            # closures built here are assumed callable from here
            for bb in b['blocks']:
                if bb['cleanup']:
                    continue
                for s in bb['stmts']:
                    if s['k'] == 'assign' and s['rv']['k'] == 'aggr' and s['rv']['ak'].startswith('closure:'):
                        self.cg[q].add(s['rv']['ak'][len('closure:'):])
        self.may = {q: set(m) for q, m in self.direct.items()}
        self.user = {q: set(m) for q, m in self.user_direct.items()}
        self.missing = set()
        changed = True
        while changed:
            changed = False
            for q in facts.bodies:
                for c in self.cg[q]:
                    if c not in self.may:
                        self.missing.add(c)
                        continue
                    if not self.may[c] <= self.may[q]:
                        self.may[q] |= self.may[c]
                        changed = True
                    if not self.user[c] <= self.user[q]:
                        self.user[q] |= self.user[c]
                        changed = True
        self._held = {}

    # ---- classification of a call terminator
    def user_kind(self, t):
        """'callback' for dyn/indirect closure calls, 'payload' for trait calls on type parameters"""
        c = t['callee']
        rk = t.get('rk')
        if rk == 'indirect':
            return 'callback'
        if c in FN_TRAITS:
            if rk in ('virtual', 'unresolved', 'fnptrshim') or t.get('selfk') in ('dyn', 'param'):
                return 'callback'
            return None
        if rk == 'virtual':
            return 'callback'
        if rk == 'unresolved':
            return 'payload'
        return None

    def local_trait_impl_methods(self):
        """adt path -> set of local trait-impl method qnames (std may call back into these)"""
        if self._local_trait_impls is None:
            m = {}
            for im in self.F.impls:
                if not im['trait']:
                    continue
                sq = im['self_q'].lstrip('&')
                for it in im['items']:
                    if it in self.F.bodies:
                        m.setdefault(sq, set()).add(it)
            self._local_trait_impls = m
        return self._local_trait_impls

    def callees_of(self, body, t):
        """crate-local bodies that this call may enter (direct, closures passed, trait impls std may call back)"""
        F = self.F
        out = set()
        res = t.get('res', '')
        if t.get('local') and res in F.bodies:
            out.add(res)
        elif t['callee'] in F.bodies:
            out.add(t['callee'])
        tyids = list(t.get('gargs', []))
        for a in t['args']:
            if a['k'] in ('move', 'copy'):
                tyids.append(body['locals'][a['pl']['l']])
        external = not (t.get('local') and res in F.bodies)
        lti = self.local_trait_impl_methods()
        seen = set()
        for i in tyids:
            for ty in F.ty_walk(i, seen):
                if ty['k'] == 'closure' and ty['p'] in F.bodies:
                    out.add(ty['p'])
                elif external and ty['k'] == 'adt' and ty.get('local') and ty['p'] in lti:
                    out |= lti[ty['p']]
        return out

    def guard_mode(self, body, l):
        F = self.F
        mode = None
        for ty in F.ty_walk(body['locals'][l]):
            if ty['k'] == 'adt':
                if GUARD_EX.match(ty['p']):
                    return 'ex'
                if GUARD_SH.match(ty['p']):
                    mode = 'sh'
            if ty['k'] == 'ref':
                # a reference to a guard is not the guard
                pass
        return mode

    def is_guard_local(self, body, l):
        """guard value itself (not a reference to one)"""
        t = self.F.types[body['locals'][l]]
        if t['k'] == 'ref' or t['k'] == 'ptr':
            return None
        return self.guard_mode(body, l)

    # ---- dataflow
    def held(self, body):
        """bi -> frozenset of guard locals held on entry of block bi"""
        q = body['q']
        if q in self._held:
            return self._held[q]
        blocks = body['blocks']
        n = len(blocks)
        hin = [None] * n
        hin[0] = frozenset()
        work = [0]
        while work:
            bi = work.pop()
            if blocks[bi]['cleanup']:
                continue
            o = self.transfer(body, bi, hin[bi], None)
            t = blocks[bi]['term']
            succ = []
            if t['k'] in ('call', 'drop', 'goto', 'assert') and t.get('target', -1) >= 0:
                succ = [t['target']]
            elif t['k'] == 'switch':
                succ = [x[1] for x in t['targets']] + [t['otherwise']]
            for s in succ:
                new = o if hin[s] is None else (hin[s] | o)
                if new != hin[s]:
                    hin[s] = new
                    work.append(s)
        self._held[q] = hin
        return hin

    def transfer(self, body, bi, held, at_call):
        """apply block bi to the held set; at_call(held_before_call, t) is invoked at a call terminator"""
        held = set(held)
        bb = body['blocks'][bi]
        for s in bb['stmts']:
            if s['k'] == 'dead':
                held.discard(s['l'])
            elif s['k'] == 'assign' and s['rv']['k'] == 'use':
                o = s['rv']['ops'][0]
                if o['k'] == 'move' and not o['pl']['p'] and o['pl']['l'] in held and not s['dst']['p']:
                    held.discard(o['pl']['l'])
                    if self.is_guard_local(body, s['dst']['l']):
                        held.add(s['dst']['l'])
        t = bb['term']
        if t['k'] == 'drop' and not t['pl']['p']:
            held.discard(t['pl']['l'])
        if t['k'] == 'call':
            if at_call:
                at_call(frozenset(held), t)
            for a in t['args']:
                if a['k'] == 'move' and not a['pl']['p']:
                    held.discard(a['pl']['l'])
            dl = t['dst']['l']
            if not t['dst']['p'] and self.is_guard_local(body, dl):
                held.add(dl)
        return frozenset(held)

    def call_sites(self, body):
        """[(bi, terminator, held-before-call {local: mode})] for every reachable call"""
        hin = self.held(body)
        out = []
        for bi, bb in enumerate(body['blocks']):
            if bb['cleanup'] or hin[bi] is None:
                continue
            if bb['term']['k'] != 'call':
                continue
            got = []
            self.transfer(body, bi, hin[bi], lambda h, t: got.append(h))
            h = got[0] if got else frozenset()
            out.append((bi, bb['term'], {l: self.guard_mode(body, l) for l in h}))
        return out

    def acquires(self, body, t):
        """modes this call may acquire (direct or through the summary of what it may enter)"""
        c = t['callee']
        if c in ACQ:
            return {ACQ[c]}
        m = set()
        for cal in self.callees_of(body, t):
            m |= self.may.get(cal, set())
        return m

    def calls_user(self, body, t):
        k = self.user_kind(t)
        out = {k} if k else set()
        for cal in self.callees_of(body, t):
            out |= self.user.get(cal, set())
        return out


def moved_guard_args(t, held):
    return [a['pl']['l'] for a in t['args'] if a['k'] == 'move' and not a['pl']['p'] and a['pl']['l'] in held]
