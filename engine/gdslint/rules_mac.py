"""C14: construction macros.  Probe crates invoke one macro arm with distinct literal keys/values and a declared
result type; they are compiled through the fact extractor against the current tree's metadata, and the
*expansion's* MIR is compared with the arm's denotation (MAC-den), type (MAC-type) and flavour (FLAV)."""
import os, re, shutil, tempfile, itertools
from .core import (Obl, Facts, calls_in, callee_name, pretty, strip_payload, unwrap_payload, deep_unwrap, term_calls, term_mentions, proj_field,
                   FLAVOURS, SIB)
from . import witness
from .kernels import key_of

KT, NT, ET = 'u32', 'u8', 'u16'


def lit(v, ty):
    return '%d%s' % (v, ty)


def const(v, ty):
    return ('const', '%d_%s' % (v, ty))


UNIT = ('aggr', 'tuple', ())


class Probe:
    def __init__(self, fl, arm, nodes, name):
        """nodes: [(key, value, edges)] with edges None (no list) or [(target, evalue)]"""
        self.fl, self.arm, self.nodes, self.name = fl, arm, nodes, name
        self.hasN = arm in (2, 4)
        self.hasE = arm in (3, 4)

    def ret_type(self):
        if self.arm == 0:
            return 'gdsl::%s::Graph<usize, (), ()>' % self.fl
        return 'gdsl::%s::Graph<%s, %s, %s>' % (self.fl, KT, NT if self.hasN else '()', ET if self.hasE else '()')

    def source(self):
        if self.arm == 0:
            body = 'gdsl::%s![]' % self.fl
        else:
            sig = '(%s, %s)' % (KT, NT) if self.hasN else '(%s)' % KT
            if self.hasE:
                sig += ' => [%s]' % ET
            lines = []
            for k, v, es in self.nodes:
                head = '(%s, %s)' % (lit(k, KT), lit(v, NT)) if self.hasN else '(%s)' % lit(k, KT)
                if es is None:
                    lines.append('        %s =>' % head)
                else:
                    items = ', '.join('(%s, %s)' % (lit(t, KT), lit(e, ET)) if self.hasE else lit(t, KT) for t, e in es)
                    lines.append('        %s => [%s]' % (head, items))
            body = 'gdsl::%s![ %s\n%s\n    ]' % (self.fl, sig, '\n'.join(lines))
        return '#![allow(unused)]\npub fn p() -> %s {\n    %s\n}\n' % (self.ret_type(), body)

    def expected_spine(self):
        seq = []
        for k, v, es in self.nodes:
            for t, e in (es or []):
                tup = (const(k, KT), const(t, KT)) + ((const(e, ET),) if self.hasE else ())
                seq.append(('push', tup))
            seq.append(('new', (const(k, KT), const(v, NT) if self.hasN else UNIT)))
            seq.append(('insert',))
        return seq


def standard_nodes():
    return [(1, 10, [(2, 100), (3, 101)]), (2, 20, [(1, 102)]), (3, 30, None)]


SHAPES = {
    'absent': None, 'empty': [], 'one': [('next', 0)], 'two': [('next', 0), ('prev', 1)], 'selfloop': [('self', 0)],
    'repeated': [('next', 0), ('next', 1)], 'forward': [('last', 0)], 'unlisted': [('unlisted', 0)],
}


def shaped_nodes(n, shapes):
    nodes = []
    ev = 100
    for i in range(n):
        k = i + 1
        sh = SHAPES[shapes[i]]
        if sh is None:
            es = None
        else:
            es = []
            for kind, _ in sh:
                t = {'next': (k % n) + 1, 'prev': ((k - 2) % n) + 1, 'self': k, 'last': n, 'unlisted': 99}[kind]
                es.append((t, ev))
                ev += 1
        nodes.append((k, 10 * k, es))
    return nodes


def probes(thorough):
    ps = []
    for fl in FLAVOURS:
        ps.append(Probe(fl, 0, [], 'p_%s_a0' % fl))
        for arm in (1, 2, 3, 4):
            ps.append(Probe(fl, arm, standard_nodes(), 'p_%s_a%d_std' % (fl, arm)))
        if thorough:
            for arm in (1, 2, 3, 4):
                ps.append(Probe(fl, arm, [], 'p_%s_a%d_n0' % (fl, arm)))
                for sh in SHAPES:
                    ps.append(Probe(fl, arm, shaped_nodes(1, [sh]) if sh not in ('two',) else shaped_nodes(1, ['selfloop']), 'p_%s_a%d_n1_%s' % (fl, arm, sh)))
                    ps.append(Probe(fl, arm, shaped_nodes(2, [sh, 'absent']), 'p_%s_a%d_n2_%s_absent' % (fl, arm, sh)))
                    ps.append(Probe(fl, arm, shaped_nodes(3, ['one', sh, 'empty']), 'p_%s_a%d_n3_one_%s_empty' % (fl, arm, sh)))
    return ps


def helper_probes():
    out = []
    for fl in FLAVOURS:
        nt = 'gdsl::%s::Node<%s, %s, %s>'
        out.append(('h_%s_node1' % fl, fl, 'node1', '#![allow(unused)]\npub fn p() -> %s {\n    gdsl::%s_node!(%s)\n}\n' % (nt % (fl, KT, '()', ET), fl, lit(1, KT))))
        out.append(('h_%s_node2' % fl, fl, 'node2', '#![allow(unused)]\npub fn p() -> %s {\n    gdsl::%s_node!(%s, %s)\n}\n' % (nt % (fl, KT, NT, ET), fl, lit(1, KT), lit(10, NT))))
        out.append(('h_%s_conn1' % fl, fl, 'conn1', '#![allow(unused)]\npub fn p(a: &%s, b: &%s) {\n    gdsl::%s_connect!(a => b)\n}\n' % (nt % (fl, KT, NT, '()'), nt % (fl, KT, NT, '()'), fl)))
        out.append(('h_%s_conn2' % fl, fl, 'conn2', '#![allow(unused)]\npub fn p(a: &%s, b: &%s) {\n    gdsl::%s_connect!(a => b, %s)\n}\n' % (nt % (fl, KT, NT, ET), nt % (fl, KT, NT, ET), fl, lit(100, ET))))
    return out


def _foreign_paths(F, b, fl):
    bad = set()
    names = []
    for bi, t in calls_in(b):
        names += [t['callee'], t.get('res', '')]
    for i in b['locals']:
        for ty in F.ty_walk(i):
            if ty['k'] == 'adt':
                names.append(ty['p'])
    for n in names:
        for m in re.finditer(r'gdsl::(\w+)', n or ''):
            seg = m.group(1)
            if seg in FLAVOURS and seg != fl:
                bad.add(n)
    return bad


def check_den(F, b, p):
    """compare the expansion with the denotation; returns list of problems"""
    why = []
    fl = p.fl
    pv, cfg = F.prov(b), F.cfg(b)
    G_NEW = 'gdsl::%s::Graph::new' % fl
    ret = strip_payload(pv.of_local(0))
    if not (isinstance(ret, tuple) and ret[0] == 'call' and ret[1] == G_NEW):
        why.append('result is %s, not the graph built by the macro' % pretty(ret))
        return why
    if p.arm == 0:
        others = [callee_name(t) for bi, t in calls_in(b) if callee_name(t) != G_NEW]
        if others:
            why.append('empty invocation does more than Graph::new(): %s' % others)
        return why
    nexts = [(bi, t) for bi, t in calls_in(b) if t['callee'] == 'std::iter::Iterator::next']
    if len(nexts) != 1:
        why.append('%d loops in the expansion (expected the one connect loop)' % len(nexts))
        return why
    nbi, nt = nexts[0]
    it = deep_unwrap(pv.of_operand(nt['args'][0]))
    if not (isinstance(it, tuple) and it[0] == 'call' and it[1].endswith('IntoIterator>::into_iter') and any(c[1].endswith('Vec::new') for c in term_calls(it)) and
            not any(c[1].startswith('std::iter::Iterator::') for c in term_calls(it))):
        why.append('connect loop is not a plain forward loop over the collected edge list: ' + pretty(it))
        return why
    EDGES = strip_payload(it[2][0])
    # spine
    spine = []
    for bi in sorted(cfg.reach, key=lambda x: len(cfg.dom[x])):
        t = b['blocks'][bi]['term']
        if t['k'] != 'call' or not cfg.dominates(bi, nbi) or bi == nbi:
            continue
        c = callee_name(t)
        if c.endswith('Vec::push') and strip_payload(pv.of_operand(t['args'][0])) == EDGES:
            tup = pv.of_operand(t['args'][1])
            spine.append(('push', tuple(tup[2]) if isinstance(tup, tuple) and tup[0] == 'aggr' else (tup,)))
        elif c == 'gdsl::%s::Node::new' % fl:
            spine.append(('new', tuple(pv.of_operand(a) for a in t['args'])))
        elif c == 'gdsl::%s::Graph::insert' % fl:
            a = pv.of_operand(t['args'][1])
            prev = spine[-1] if spine else None
            if not (strip_payload(pv.of_operand(t['args'][0])) == ret and isinstance(a, tuple) and a[0] == 'call' and a[1] == 'gdsl::%s::Node::new' % fl and prev and prev[0] == 'new' and tuple(a[2]) == prev[1]):
                why.append('insert at %s does not insert the node just built into the result graph' % t['sp'])
            spine.append(('insert',))
        elif c.startswith('gdsl::') and c not in (G_NEW,):
            spine.append(('other', c))
        elif c.endswith('Vec::clear') or c.endswith('Vec::new') or c == G_NEW or c.endswith('into_iter'):
            pass
        else:
            spine.append(('other', c))
    exp = p.expected_spine()
    if spine != exp:
        for i, (a, e) in enumerate(itertools.zip_longest(spine, exp)):
            if a != e:
                why.append('step %d of the expansion is %s, denotation says %s' % (i, _fmt(a), _fmt(e)))
                break
    # loop body
    ITEM = deep_unwrap(proj_field(('v', ('call', callee_name(nt), tuple(pv.of_operand(a) for a in nt['args']), nbi), 'Some#1'), '0'))
    S, T = ('f', ITEM, '0'), ('f', ITEM, '1')
    conn = [(bi, t) for bi, t in calls_in(b) if callee_name(t) == 'gdsl::%s::Node::connect' % fl]
    if len(conn) != 1:
        why.append('%d connect calls in the loop' % len(conn))
        return why
    cbi, ct = conn[0]
    a = [deep_unwrap(pv.of_operand(x)) for x in ct['args']]

    def got(term, key):
        return isinstance(term, tuple) and term[0] == 'call' and term[1] == 'gdsl::%s::Graph::get' % fl and strip_payload(term[2][0]) == ret and deep_unwrap(term[2][1]) == key
    third = ('f', ITEM, '2') if p.hasE else UNIT
    if not (got(a[0], S) and got(a[1], T) and a[2] == third):
        why.append('loop connects (%s, %s, %s), expected (get(s), get(t), %s)' % (pretty(a[0]), pretty(a[1]), pretty(a[2]), 'value' if p.hasE else '()'))
    # membership guard
    tests = {}
    for bi, t in calls_in(b, lambda t: callee_name(t) == 'gdsl::%s::Graph::contains' % fl):
        k = deep_unwrap(pv.of_operand(t['args'][1]))
        te, fe = cfg.bool_edges(t['dst']['l'], t['target'])
        tests.setdefault(repr(k), []).append((bi, te, fe))
    for key, nm in ((S, 'source'), (T, 'target')):
        ts = tests.get(repr(key), [])
        if not any(te and cfg.edge_dominates(te[0], te[1], cbi) for bi, te, fe in ts):
            why.append('connect is not guarded by membership of the %s key' % nm)
    panics = []
    for bi, t in calls_in(b, lambda t: callee_name(t) in ('std::rt::panic_fmt', 'core::panicking::panic_fmt')):
        disp = [deep_unwrap(c[2][0]) for c in term_calls(pv.of_operand(t['args'][0])) if c[1].startswith('core::fmt::rt::Argument::new_display')]
        panics.append((bi, disp))
    ps_ = [(bi, d) for bi, d in panics if d == [S]]
    pt_ = [(bi, d) for bi, d in panics if d == [T]]
    if not ps_ or not any(fe and cfg.edge_dominates(fe[0], fe[1], ps_[0][0]) for bi, te, fe in tests.get(repr(S), [])):
        why.append('no panic naming the source key on the "source missing" branch')
    if not pt_ or not any(te and cfg.edge_dominates(te[0], te[1], pt_[0][0]) for bi, te, fe in tests.get(repr(S), [])):
        why.append('no panic naming the target key on the "source present" branch of the missing-key arm')
    if cfg.path_exists(nbi, cbi) and any(cfg.path_exists(bi, cbi) for bi, d in panics):
        why.append('a panic arm can continue to connect')
    return why


def _fmt(x):
    if x is None:
        return 'nothing'
    if x[0] in ('push', 'new'):
        return '%s(%s)' % (x[0], ', '.join(pretty(t) for t in x[1]))
    return str(x)


def mac(ctx, thorough=None):
    thorough = ctx.tier == 'thorough' if thorough is None else thorough
    out = []
    ps = probes(thorough)
    hs = helper_probes()
    work = os.environ.get('GDSL_WORK', os.path.join(witness.VERIF, '.work'))
    tmp = tempfile.mkdtemp(prefix='mac-', dir=work)
    try:
        jobs = [{'name': p.name, 'src': p.source(), 'facts': os.path.join(tmp, p.name + '.json')} for p in ps]
        jobs += [{'name': n, 'src': src, 'facts': os.path.join(tmp, n + '.json')} for n, fl, kind, src in hs]
        res, rmeta = witness.run_many(jobs, rmeta=getattr(ctx, 'rmeta', None))
        bags = {}
        for p in ps:
            okc, diags = res[p.name]
            inst = '%s! arm %d (%d nodes)' % (p.fl, p.arm, len(p.nodes))
            fj = os.path.join(tmp, p.name + '.json')
            out.append(Obl('MAC-type', 'probe ' + p.name, 'probes/' + p.name + '.rs', inst + ' has type ' + p.ret_type(), okc,
                           'type-checks' if okc else '; '.join('%s %s' % (d['code'], d['message'][:120]) for d in diags[:2])))
            if not okc or not os.path.exists(fj):
                out.append(Obl('MAC-den', 'probe ' + p.name, 'probes/' + p.name + '.rs', inst + ' builds exactly the denoted graph', False, 'no expansion to analyse (probe does not compile)'))
                continue
            PF = Facts(fj)
            PF.summaries()
            b = PF.bodies.get('p')
            if b is None:
                out.append(Obl('MAC-den', 'probe ' + p.name, '-', inst, False, 'probe body missing'))
                continue
            why = check_den(PF, b, p)
            out.append(Obl('MAC-den', 'probe ' + p.name, 'probes/' + p.name + '.rs', inst + ' builds exactly the denoted graph', not why, '; '.join(why[:3]) if why else '%d spine steps + guarded connect loop match' % len(p.expected_spine())))
            bad = _foreign_paths(PF, b, p.fl)
            out.append(Obl('MAC-flav', 'probe ' + p.name, 'probes/' + p.name + '.rs', inst + ' expands to %s:: items only' % p.fl, not bad, 'foreign flavour: ' + ', '.join(sorted(bad)[:3]) if bad else 'closed'))
            from .rules_sib import bag
            bags[p.name] = _flavourless(bag(PF, b))
        # helpers
        for n, fl, kind, src in hs:
            okc, diags = res[n]
            fj = os.path.join(tmp, n + '.json')
            inst = '%s_%s! (%s)' % (fl, 'node' if kind.startswith('node') else 'connect', kind)
            out.append(Obl('MAC-type', 'probe ' + n, 'probes/' + n + '.rs', inst + ' type-checks against gdsl::%s' % fl, okc, 'type-checks' if okc else '; '.join('%s %s' % (d['code'], d['message'][:120]) for d in diags[:2])))
            if not okc or not os.path.exists(fj):
                out.append(Obl('MAC-den', 'probe ' + n, '-', inst + ' denotation', False, 'no expansion to analyse'))
                continue
            PF = Facts(fj)
            PF.summaries()
            b = PF.bodies['p']
            pv = PF.prov(b)
            cs = [(bi, t) for bi, t in calls_in(b) if callee_name(t).startswith('gdsl::')]
            why = []
            if kind.startswith('node'):
                exp = ('gdsl::%s::Node::new' % fl, [const(1, KT), const(10, NT) if kind == 'node2' else UNIT])
            else:
                exp = ('gdsl::%s::Node::connect' % fl, [('param', 1), ('param', 2), const(100, ET) if kind == 'conn2' else UNIT])
            if len(cs) != 1 or callee_name(cs[0][1]) != exp[0]:
                why.append('expands to %s' % [callee_name(t) for bi, t in cs])
            else:
                a = [deep_unwrap(pv.of_operand(x)) for x in cs[0][1]['args']]
                if a != exp[1]:
                    why.append('arguments %s, expected %s' % ([pretty(x) for x in a], [pretty(x) for x in exp[1]]))
            out.append(Obl('MAC-den', 'probe ' + n, 'probes/' + n + '.rs', inst + ' = one call %s with the given arguments' % exp[0].split('::', 2)[-1], not why, '; '.join(why) if why else 'ok'))
            bad = _foreign_paths(PF, b, fl)
            out.append(Obl('MAC-flav', 'probe ' + n, 'probes/' + n + '.rs', inst + ' expands to %s:: items only' % fl, not bad, 'foreign flavour: ' + ', '.join(sorted(bad)[:3]) if bad else 'closed'))
        # sibling arms expand alike
        for p in ps:
            if p.fl in SIB:
                twin = p.name.replace('p_%s_' % p.fl, 'p_%s_' % SIB[p.fl], 1)
                if p.name in bags and twin in bags:
                    ok = bags[p.name] == bags[twin]
                    out.append(Obl('MAC-sib', 'probe %s | %s' % (p.name, twin), '-', 'plain and sync arm expand to the same program', ok,
                                   'same events' if ok else 'differ: %s' % (list((bags[p.name] - bags[twin]).items())[:2] + list((bags[twin] - bags[p.name]).items())[:2])))
        ctx.cache.setdefault('evidence_extra', {}).setdefault('C14', {})['probe_programs'] = len(jobs)
        ctx.cache['evidence_extra']['C14']['sample_probe'] = ps[4].source() if len(ps) > 4 else ''
    finally:
        if not os.environ.get('GDSL_KEEP_WIT'):
            shutil.rmtree(tmp, ignore_errors=True)
    return out


def _flavourless(bg):
    import collections
    out = collections.Counter()
    for k, n in bg.items():
        out[(k[0], re.sub(r'gdsl::(sync_digraph|sync_ungraph|digraph|ungraph)::', 'gdsl::F::', k[1]), k[2], tuple(re.sub(r'gdsl::(sync_digraph|sync_ungraph|digraph|ungraph)::', 'gdsl::F::', c) for c in k[3]), k[4] if len(k) > 4 else ())] += n
    return out
