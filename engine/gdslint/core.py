"""Shared analyses over the fact dump: facts model, CFG (A-CFG), provenance (A-PROV).

Nothing in here judges; rule modules do.  Everything is computed from
MIR facts of /repo's current working tree (see engine/facts.sh).
"""
import json, re, collections

FLAVOURS = ('digraph', 'sync_digraph', 'ungraph', 'sync_ungraph')
DIRECTED = ('digraph', 'sync_digraph')
UNDIRECTED = ('ungraph', 'sync_ungraph')
SYNC = ('sync_digraph', 'sync_ungraph')
PLAIN = ('digraph', 'ungraph')
SIB = {'digraph': 'sync_digraph', 'ungraph': 'sync_ungraph'}


class Obl(dict):
    """One obligation: rule instance judged on one construct."""
    def __init__(self, rule, func, where, instance, ok, why=''):
        super().__init__(rule=rule, func=func, where=where, instance=instance, ok=bool(ok), why=why)

    @property
    def key(self):
        return '%s|%s|%s' % (self['rule'], self['func'], self['instance'])


class Facts:
    def __init__(self, path):
        d = json.load(open(path))
        self.raw = d
        self.crate = d['crate']
        self.types = d['types']
        self.adts = {a['path']: a for a in d['adts']}
        self.impls = d['impls']
        self.fns = {f['q']: f for f in d['fns']}
        self.macros = d['macros']
        self.unsafe_blocks = d['unsafe_blocks']
        self.bodies = {}
        dup = []
        for b in d['bodies']:
            if b['q'] in self.bodies:
                dup.append(b['q'])
            self.bodies[b['q']] = b
            b['_facts'] = self
        self.duplicates = dup
        self._cfg = {}
        self._prov = {}
        self._summ = None

    # ---- types
    def ty(self, i):
        return self.types[i]

    def ty_s(self, i):
        return self.types[i]['s']

    def ty_walk(self, i, seen=None):
        """yield every type node reachable through structural args"""
        if seen is None:
            seen = set()
        if i in seen:
            return
        seen.add(i)
        t = self.types[i]
        yield t
        for a in t.get('a', []):
            yield from self.ty_walk(a, seen)

    def ty_has_adt(self, i, pathre):
        return any(t['k'] == 'adt' and re.search(pathre, t['p']) for t in self.ty_walk(i))

    def local_ty(self, body, l):
        return self.types[body['locals'][l]]

    def local_ty_s(self, body, l):
        return self.types[body['locals'][l]]['s']

    # ---- bodies
    def flavour(self, body):
        m = body['mods']
        return m[0] if m and m[0] in FLAVOURS else None

    def by_flavour(self, fl):
        return [b for b in self.bodies.values() if self.flavour(b) == fl]

    def find(self, fl, suffix):
        """body of flavour fl whose q == fl + '::' + suffix (or None)"""
        return self.bodies.get(fl + '::' + suffix)

    def cfg(self, body):
        q = body['q']
        if q not in self._cfg:
            self._cfg[q] = CFG(body)
        return self._cfg[q]

    def prov(self, body):
        q = body['q']
        if q not in self._prov:
            self._prov[q] = Prov(body, self)
        return self._prov[q]

    def where(self, body, bi=None):
        if bi is None:
            return body['span']
        return body['blocks'][bi]['term']['sp']

    # ---- accessor summaries (derived): return-term of small crate fns in terms of params
    def summaries(self):
        if self._summ is not None:
            return self._summ
        self._summ = {}
        # two rounds so that accessors built on accessors resolve
        for _ in range(3):
            for q, b in self.bodies.items():
                if b['kind'] == 'Closure' or b['argc'] == 0:
                    continue
                nblocks = sum(1 for x in b['blocks'] if not x['cleanup'])
                if nblocks > 12:
                    continue
                rt = self.types[b['locals'][0]]
                pv = Prov(b, self)
                t = pv.of_local(0)
                # accessors only: `&self.field` (returns a reference) or an Edge rebuilt from fields (reverse)
                if is_pure_term(t) and (rt['k'] == 'ref' or (isinstance(t, tuple) and t[0] == 'aggr')):
                    self._summ[q] = t
        return self._summ


def is_pure_term(t):
    """term built only from params, field/variant projections and aggregates of such"""
    if not isinstance(t, tuple):
        return False
    k = t[0]
    if k == 'param':
        return True
    if k in ('f', 'v'):
        return is_pure_term(t[1])
    if k == 'aggr':
        return t[1].startswith('adt:') and 'Edge' in t[1] and all(is_pure_term(x) for x in t[2])
    return False


def subst(t, args):
    if not isinstance(t, tuple):
        return t
    if t[0] == 'param':
        i = t[1] - 1
        return args[i] if i < len(args) else ('?',)
    if t[0] == 'f':
        return proj_field(subst(t[1], args), t[2])
    if t[0] == 'v':
        return ('v', subst(t[1], args), t[2])
    if t[0] == 'aggr':
        return ('aggr', t[1], tuple(subst(x, args) for x in t[2]))
    return t


def proj_field(base, idx):
    """field projection with aggregate folding"""
    if isinstance(base, tuple):
        if base[0] == 'aggr' and idx.isdigit() and int(idx) < len(base[2]):
            return base[2][int(idx)]
        if base[0] == 'v' and isinstance(base[1], tuple) and base[1][0] == 'aggr' and idx.isdigit() and int(idx) < len(base[1][2]):
            return base[1][2][int(idx)]
        if base[0] == 'v' and isinstance(base[1], tuple) and base[1] and base[1][0] == 'join':
            # downcast of a join: aggregates of another variant cannot be the value here
            var = str(base[2]).split('#')[0]
            outs = []
            for a in base[1][1]:
                if isinstance(a, tuple) and a and a[0] == 'aggr' and a[1].startswith('adt:'):
                    if a[1].endswith('::' + var) and idx.isdigit() and int(idx) < len(a[2]):
                        outs.append(a[2][int(idx)])
                    continue
                outs.append(('f', ('v', a, base[2]), idx))
            uniq = []
            for o in outs:
                if o not in uniq:
                    uniq.append(o)
            if len(uniq) == 1:
                return uniq[0]
            if uniq:
                return ('join', tuple(uniq))
    return ('f', base, idx)


# ------------------------------------------------------------------ CFG
class CFG:
    def __init__(self, body):
        self.body = body
        self.blocks = body['blocks']
        n = len(self.blocks)
        self.n = n
        self.succ = [[] for _ in range(n)]
        for i, b in enumerate(self.blocks):
            if b['cleanup']:
                continue
            t = b['term']
            k = t['k']
            if k in ('call', 'drop', 'goto', 'assert'):
                if t.get('target', -1) >= 0:
                    self.succ[i].append(t['target'])
            elif k == 'switch':
                for v, tgt in t['targets']:
                    self.succ[i].append(tgt)
                self.succ[i].append(t['otherwise'])
        self.succ = [sorted(set(s)) for s in self.succ]
        self.pred = [[] for _ in range(n)]
        for i, ss in enumerate(self.succ):
            for s in ss:
                self.pred[s].append(i)
        self.reach = self._reach_from(0)
        self.dom = self._dominators()
        self.returns = [i for i in self.reach if self.blocks[i]['term']['k'] == 'return']
        self._can_return = None
        self._pdom = None

    def _reach_from(self, start, skip_edge=None, skip_nodes=()):
        seen = {start}
        st = [start]
        while st:
            x = st.pop()
            for s in self.succ[x]:
                if skip_edge and (x, s) == skip_edge:
                    continue
                if s in skip_nodes:
                    continue
                if s not in seen:
                    seen.add(s)
                    st.append(s)
        return seen

    def _dominators(self):
        nodes = sorted(self.reach)
        dom = {n: set(nodes) for n in nodes}
        dom[0] = {0}
        changed = True
        # reverse post-order would be faster; bodies are small
        while changed:
            changed = False
            for n in nodes:
                if n == 0:
                    continue
                ps = [p for p in self.pred[n] if p in self.reach]
                new = None
                for p in ps:
                    new = set(dom[p]) if new is None else (new & dom[p])
                new = (new or set()) | {n}
                if new != dom[n]:
                    dom[n] = new
                    changed = True
        return dom

    def dominates(self, a, b):
        """block a dominates block b (a == b counts)"""
        return b in self.dom and a in self.dom[b]

    def edge_dominates(self, src, dst, b):
        """every path entry -> b passes through edge src->dst"""
        if b not in self.reach:
            return False
        return b not in self._reach_from(0, skip_edge=(src, dst)) or (b == 0 and False)

    def can_return(self):
        """blocks from which a return is reachable (panic-only blocks are excluded)"""
        if self._can_return is None:
            ok = set(self.returns)
            changed = True
            while changed:
                changed = False
                for i in self.reach:
                    if i not in ok and any(s in ok for s in self.succ[i]):
                        ok.add(i)
                        changed = True
            self._can_return = ok
        return self._can_return

    def reachable_from(self, a, avoiding=()):
        return self._reach_from(a, skip_nodes=set(avoiding))

    def path_exists(self, a, b, avoiding=()):
        if a in avoiding:
            return False
        if a == b:
            return True
        return b in self._reach_from(a, skip_nodes=set(avoiding))

    def loops(self):
        """natural loops: header -> set(body blocks)"""
        res = {}
        for t in sorted(self.reach):
            for h in self.succ[t]:
                if self.dominates(h, t):
                    body = {h, t}
                    st = [t]
                    while st:
                        x = st.pop()
                        if x == h:
                            continue
                        for p in self.pred[x]:
                            if p in self.reach and p not in body:
                                body.add(p)
                                st.append(p)
                    res.setdefault(h, set()).update(body)
        return res

    def switch_edges(self, bi):
        """for a switch terminator: list of (value or 'else', target)"""
        t = self.blocks[bi]['term']
        if t['k'] != 'switch':
            return []
        return [(v, tg) for v, tg in t['targets']] + [('else', t['otherwise'])]

    def switch_on(self, local, start):
        """follow gotos from `start` to a switch whose operand is `local` (possibly via copies / moves / one negation)"""
        seen = set()
        x = start
        alias = {local: False}    # local -> negated?
        while x not in seen and x >= 0:
            seen.add(x)
            bb = self.blocks[x]
            t = bb['term']
            for s in bb['stmts']:
                if s['k'] == 'assign' and not s['dst']['p']:
                    rv = s['rv']
                    src = rv['ops'][0].get('pl') if rv['k'] in ('use', 'unop') and rv.get('ops') else None
                    if src is not None and not src['p'] and src['l'] in alias and s['dst']['l'] not in alias:
                        if rv['k'] == 'use':
                            alias[s['dst']['l']] = alias[src['l']]
                        elif rv.get('op') == 'Not':
                            alias[s['dst']['l']] = not alias[src['l']]
            if t['k'] == 'switch' and t['op']['k'] in ('copy', 'move') and not t['op']['pl']['p']:
                l = t['op']['pl']['l']
                if l in alias:
                    return x, t, alias[l]
            if t['k'] == 'goto':
                x = t['target']
            elif t['k'] == 'drop':
                x = t['target']
            else:
                return None, None, False
        return None, None, False

    def bool_edges(self, local, start):
        """(true_edge, false_edge) of the branch on boolean `local` reached from block `start`"""
        sb, st, neg = self.switch_on(local, start)
        if st is None:
            return None, None
        f = [tg for v, tg in st['targets'] if v == 0]
        if not f:
            return None, None
        te, fe = (sb, st['otherwise']), (sb, f[0])
        if neg:
            te, fe = fe, te
        return te, fe


# ------------------------------------------------------------------ provenance
TRANSPARENT = {
    'std::ops::Deref::deref', 'std::ops::DerefMut::deref_mut', 'std::clone::Clone::clone',
    'std::convert::AsRef::as_ref', 'std::borrow::Borrow::borrow', 'std::borrow::BorrowMut::borrow_mut',
    'std::convert::Into::into', 'std::convert::From::from',
}
# calls whose result is a payload projection of the first argument
UNWRAPS = {
    'std::option::Option::unwrap': 'Some', 'std::option::Option::expect': 'Some',
    'std::result::Result::unwrap': 'Ok', 'std::result::Result::expect': 'Ok',
}


def fidx(p):
    """'.0:inner' -> '0'"""
    return p[1:].split(':')[0]


class Prov:
    """flow-insensitive provenance terms per local (MIR temporaries are single-assignment in practice)

    terms: ('param',i) ('f',t,idx) ('v',t,'Some#1') ('call',callee,(args),bb) ('const',v)
           ('aggr',kind,(ops)) ('discr',t) ('join',(terms)) ('binop',op,(a,b)) ('unop',op,a) ('local',l) ('?',)
    """

    def __init__(self, body, facts=None, use_summaries=True):
        self.body = body
        self.facts = facts
        self.use_summaries = use_summaries
        self.defs = collections.defaultdict(list)
        for bi, b in enumerate(body['blocks']):
            if b['cleanup']:
                continue
            for st in b['stmts']:
                if st['k'] == 'assign' and not st['dst']['p']:
                    self.defs[st['dst']['l']].append(('rv', st['rv'], bi))
            t = b['term']
            if t['k'] == 'call' and not t['dst']['p']:
                self.defs[t['dst']['l']].append(('call', t, bi))
        self.memo = {}

    def of_place(self, pl, depth=0):
        base = self.of_local(pl['l'], depth)
        for p in pl['p']:
            base = self.proj(base, p)
        return base

    def proj(self, t, p):
        if p == '*':
            return t
        if p.startswith('.'):
            return proj_field(t, fidx(p))
        if p.startswith('as '):
            v = p[3:]
            # unwrap summary: ('v', X, 'Some#1') stays symbolic
            return ('v', t, v)
        return ('p', t, p)

    def of_operand(self, op, depth=0):
        if op['k'] in ('copy', 'move'):
            return self.of_place(op['pl'], depth)
        if op['k'] == 'const':
            if op.get('fn'):
                return ('fn', op['fn'])
            return ('const', op['v'])
        return ('?',)

    def of_local(self, l, depth=0):
        if l in self.memo:
            return self.memo[l]
        if l != 0 and l <= self.body['argc']:
            return ('param', l)
        if depth > 60:
            return ('?',)
        self.memo[l] = ('cycle', l)
        ds = self.defs.get(l, [])
        terms = []
        for kind, d, bi in ds:
            if kind == 'rv':
                k = d['k']
                if k in ('use', 'cast'):
                    terms.append(self.of_operand(d['ops'][0], depth + 1))
                elif k == 'ref':
                    terms.append(self.of_place(d['pl'], depth + 1))
                elif k == 'aggr':
                    terms.append(('aggr', d['ak'], tuple(self.of_operand(o, depth + 1) for o in d['ops'])))
                elif k == 'discr':
                    terms.append(('discr', self.of_place(d['pl'], depth + 1)))
                elif k == 'binop':
                    terms.append(('binop', d['op'], tuple(self.of_operand(o, depth + 1) for o in d['ops'])))
                elif k == 'unop':
                    terms.append(('unop', d['op'], self.of_operand(d['ops'][0], depth + 1)))
                else:
                    terms.append((k,))
            else:
                terms.append(self.of_call(d, bi, depth + 1))
        if not terms:
            r = ('local', l)
        elif len(terms) == 1:
            r = terms[0]
        else:
            uniq = []
            for t in terms:
                if t not in uniq:
                    uniq.append(t)
            r = uniq[0] if len(uniq) == 1 else ('join', tuple(uniq))
        self.memo[l] = r
        return r

    def def_terms(self, l):
        """[(term, block)] one per definition of local l (the join that of_local builds, kept apart)"""
        out = []
        for kind, d, bi in self.defs.get(l, []):
            if kind == 'rv':
                k = d['k']
                if k in ('use', 'cast'):
                    out.append((self.of_operand(d['ops'][0], 1), bi))
                elif k == 'ref':
                    out.append((self.of_place(d['pl'], 1), bi))
                elif k == 'aggr':
                    out.append((('aggr', d['ak'], tuple(self.of_operand(o, 1) for o in d['ops'])), bi))
                elif k == 'binop':
                    out.append((('binop', d['op'], tuple(self.of_operand(o, 1) for o in d['ops'])), bi))
                elif k == 'unop':
                    out.append((('unop', d['op'], self.of_operand(d['ops'][0], 1)), bi))
                elif k == 'discr':
                    out.append((('discr', self.of_place(d['pl'], 1)), bi))
                else:
                    out.append(((k,), bi))
            else:
                out.append((self.of_call(d, bi, 1), bi))
        return out

    def of_call(self, t, bi, depth):
        callee = t['callee']
        args = [self.of_operand(a, depth) for a in t['args']]
        if callee in TRANSPARENT and args:
            return args[0]
        if callee in UNWRAPS and args:
            return ('v', args[0], UNWRAPS[callee])
        if callee == 'std::iter::IntoIterator::into_iter' and args:
            res = t.get('res', '')
            # identity for iterators; for collections keep the call
            if res.startswith('<I as'):
                return args[0]
            return ('call', res or callee, tuple(args), bi)
        if self.use_summaries and self.facts is not None and self.facts._summ is not None:
            name = t['res'] if t.get('local') and t.get('res') in self.facts._summ else callee
            s = self.facts._summ.get(name)
            if s is not None:
                return subst(s, args)
        name = t['res'] if t.get('rk') == 'item' and t.get('res') else callee
        return ('call', name, tuple(args), bi)


def term_mentions(t, pred):
    if pred(t):
        return True
    if isinstance(t, tuple):
        for x in t:
            if isinstance(x, tuple) and term_mentions(x, pred):
                return True
    return False


def term_calls(t):
    """all ('call', name, args, bb) sub-terms"""
    out = []
    def go(x):
        if isinstance(x, tuple):
            if x and x[0] == 'call':
                out.append(x)
            for y in x:
                if isinstance(y, tuple):
                    go(y)
    go(t)
    return out


def strip_payload(t):
    """remove ('v', X, variant) wrappers: payload of unwrap/?/match-binding is 'the same thing' for identity"""
    while isinstance(t, tuple) and t and t[0] == 'v':
        t = t[1]
    return t


def unwrap_payload(t):
    """identity through Option/Result payload extraction: ('v',X,_) and ('f',('v',X,_),'0') -> X"""
    while isinstance(t, tuple) and t:
        if t[0] == 'call' and t[1].endswith('Try>::branch') and t[2]:
            t = t[2][0]   # `x?`: the Continue payload of branch(x) is the Some/Ok payload of x
        elif t[0] == 'v':
            t = t[1]
        elif t[0] == 'f' and t[2] == '0' and isinstance(t[1], tuple) and t[1] and t[1][0] == 'v' and '#' in str(t[1][2]):
            # `(X as Some#1).0` is the payload; ('v', X, 'Some') (from unwrap()) already *is* the payload, so `.0` on it is a real field
            t = t[1][1]
        else:
            break
    return t


def deep_unwrap(t):
    """unwrap_payload applied at every level of the term"""
    t = unwrap_payload(t)
    if isinstance(t, tuple):
        return tuple(deep_unwrap(x) if isinstance(x, tuple) else x for x in t)
    return t


def pretty(t, depth=0):
    if not isinstance(t, tuple) or not t:
        return str(t)
    k = t[0]
    if depth > 8:
        return '…'
    if k == 'param':
        return 'P%d' % t[1]
    if k == 'f':
        return '%s.%s' % (pretty(t[1], depth + 1), t[2])
    if k == 'v':
        return '%s@%s' % (pretty(t[1], depth + 1), t[2].split('#')[0])
    if k == 'call':
        return '%s(%s)' % (t[1].split('::')[-1].rstrip('>'), ','.join(pretty(a, depth + 1) for a in t[2]))
    if k == 'join':
        return 'join(' + '|'.join(pretty(x, depth + 1) for x in t[1]) + ')'
    if k == 'aggr':
        return '%s{%s}' % (t[1].split('::')[-1], ','.join(pretty(x, depth + 1) for x in t[2]))
    if k == 'const':
        return str(t[1])
    if k == 'discr':
        return 'discr(%s)' % pretty(t[1], depth + 1)
    if k == 'binop':
        return '%s(%s)' % (t[1], ','.join(pretty(x, depth + 1) for x in t[2]))
    if k == 'unop':
        return '%s(%s)' % (t[1], pretty(t[2], depth + 1))
    return str(t)


def calls_in(body, pred=None):
    """[(block index, terminator)] of non-cleanup call terminators"""
    out = []
    for bi, b in enumerate(body['blocks']):
        if b['cleanup']:
            continue
        t = b['term']
        if t['k'] == 'call' and (pred is None or pred(t)):
            out.append((bi, t))
    return out


def callee_name(t):
    """best name of a call: resolved item when resolution succeeded, else the declared callee"""
    if t.get('rk') == 'item' and t.get('res'):
        return t['res']
    return t['callee']


def outcome_edges(F, b, call_bi):
    """(success_edge, failure_edge) of the branch taken on the Option/Result returned by the call ending block call_bi:
    a discriminant switch on the result itself (Some/Ok vs None/Err), on Try::branch of it (`?`: Continue vs Break), or on
    is_some/is_none/is_ok/is_err of it.  Edges are (switch block, target)."""
    cfg, pv = F.cfg(b), F.prov(b)
    KEEP = ('map_err', 'map', 'ok_or', 'ok_or_else', 'ok', 'as_ref', 'as_mut', 'copied', 'cloned', 'inspect', 'inspect_err')

    def peel(x):
        # combinators that turn Some/Ok into Some/Ok and None/Err into None/Err keep the outcome of what they wrap
        while isinstance(x, tuple) and x and x[0] == 'call' and x[3] != call_bi and x[1].split('::')[-1] in KEEP and \
                (x[1].startswith('std::option::Option::') or x[1].startswith('std::result::Result::')) and x[2]:
            x = x[2][0]
        return x
    for bi in sorted(cfg.reach):
        tt = b['blocks'][bi]['term']
        if tt['k'] != 'switch':
            continue
        term = pv.of_operand(tt['op'])
        if isinstance(term, tuple) and term and term[0] == 'discr':
            src = term[1]
            if isinstance(src, tuple) and src and src[0] == 'call' and src[1].endswith('Try>::branch') and src[2]:
                src = ('call', src[1], (peel(src[2][0]),) + tuple(src[2][1:]), src[3])
            else:
                src = peel(src)
            adt = None
            for s in b['blocks'][bi]['stmts']:
                if s['k'] == 'assign' and s['rv']['k'] == 'discr' and s['dst']['l'] == tt['op']['pl']['l']:
                    adt = s['rv'].get('adt')
            if isinstance(src, tuple) and src and src[0] == 'call' and src[3] == call_bi:
                good_v = 1 if adt == 'std::option::Option' else 0   # Some = 1; Ok = 0
                goods = [tg for v, tg in tt['targets'] if v == good_v]
                bads = [tg for v, tg in tt['targets'] if v != good_v]
                g = goods[0] if goods else tt['otherwise']
                bd = bads[0] if bads else tt['otherwise']
                return (bi, g), (bi, bd)
            if isinstance(src, tuple) and src and src[0] == 'call' and src[1].endswith('Try>::branch') and src[2] and isinstance(src[2][0], tuple) and src[2][0] and src[2][0][0] == 'call' and src[2][0][3] == call_bi:
                conts = [tg for v, tg in tt['targets'] if v == 0]
                brks = [tg for v, tg in tt['targets'] if v == 1]
                return (bi, conts[0] if conts else tt['otherwise']), (bi, brks[0] if brks else tt['otherwise'])
        if isinstance(term, tuple) and term and term[0] == 'call' and term[1].split('::')[-1] in ('is_some', 'is_none', 'is_ok', 'is_err') and term[2]:
            src = strip_payload(term[2][0])
            if isinstance(src, tuple) and src and src[0] == 'call' and src[3] == call_bi:
                z = [tg for v, tg in tt['targets'] if v == 0]
                te, fe = (bi, tt['otherwise']), (bi, z[0] if z else tt['otherwise'])
                return (te, fe) if term[1].split('::')[-1] in ('is_some', 'is_ok') else (fe, te)
    return None, None


def subst_full(t, args):
    """substitute parameters in an arbitrary term"""
    if not isinstance(t, tuple) or not t:
        return t
    if t[0] == 'param':
        i = t[1] - 1
        return args[i] if i < len(args) else ('?',)
    if t[0] == 'f':
        return proj_field(subst_full(t[1], args), t[2])
    return tuple(subst_full(x, args) if isinstance(x, tuple) else x for x in t)


def is_straight_line(F, b, max_blocks=12):
    n = 0
    for bb in b['blocks']:
        if bb['cleanup']:
            continue
        n += 1
        if bb['term']['k'] == 'switch':
            return False
    return n <= max_blocks and not F.cfg(b).loops()


def expand_local(F, term, allow, depth=0):
    """inline calls to crate-local straight-line functions selected by allow(q) into the term (their return term, parameters
    substituted); used where a rule states what a function *computes* and a maintainer may have routed it through a helper"""
    if not isinstance(term, tuple) or not term or depth > 4:
        return term
    term = tuple(expand_local(F, x, allow, depth) if isinstance(x, tuple) else x for x in term)
    if term[0] == 'call' and term[1] in F.bodies and allow(term[1]):
        cb = F.bodies[term[1]]
        if cb['kind'] != 'Closure' and is_straight_line(F, cb):
            rt = F.prov(cb).of_local(0)
            return expand_local(F, subst_full(rt, list(term[2])), allow, depth + 1)
    return term


def closure_result(F, clo, args, depth=0):
    """return term of the closure aggregate `clo` applied to `args` (captured variables substituted; calls of captured closures resolved)"""
    if not (isinstance(clo, tuple) and clo and clo[0] == 'aggr' and clo[1].startswith('closure:')) or depth > 4:
        return None
    cb = F.bodies.get(clo[1][len('closure:'):])
    if cb is None:
        return None
    rt = F.prov(cb).of_local(0)
    rt = subst_full(rt, [clo] + list(args))
    d = unwrap_payload(rt)
    if isinstance(d, tuple) and d and d[0] == 'call' and d[1] in ('std::ops::Fn::call', 'std::ops::FnMut::call_mut', 'std::ops::FnOnce::call_once') and len(d[2]) == 2:
        inner = deep_unwrap(d[2][0])
        at = deep_unwrap(d[2][1])
        if isinstance(inner, tuple) and inner and inner[0] == 'aggr' and inner[1].startswith('closure:') and isinstance(at, tuple) and at[0] == 'aggr':
            r = closure_result(F, inner, list(at[2]), depth + 1)
            if r is not None:
                return r
        if isinstance(inner, tuple) and inner and inner[0] == 'fn' and isinstance(at, tuple) and at[0] == 'aggr':
            # a function item passed where a closure is expected (`collect(Node::is_root)`): calling it is calling the function
            return ('call', inner[1], tuple(at[2]), d[3] if len(d) > 3 else None)
    return rt
