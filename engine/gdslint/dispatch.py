"""Entry points of the search builders: which kernel is reached under which enum-variant arms.

TR1 (transpose dispatch), PFS1 (Min/Max vs Reverse), TR2 (constructor defaults),
INIT / CYC-INIT (seeding), ORD2 (assembly of search_nodes / search_edges).
"""
import re
from .core import Obl, calls_in, callee_name, pretty, strip_payload, unwrap_payload, term_mentions, term_calls, proj_field, DIRECTED, UNDIRECTED
from .kernels import key_of

BUILDERS = ('Bfs', 'Dfs', 'Pfs', 'Order')


def enum_switches(F, b):
    """[(block, enum path, variant names, switch terminator)] for switches on a crate-local enum discriminant"""
    out = []
    cfg = F.cfg(b)
    pv = F.prov(b)
    for bi, bb in enumerate(b['blocks']):
        if bb['cleanup'] or bi not in cfg.reach:
            continue
        t = bb['term']
        if t['k'] != 'switch' or t['op']['k'] not in ('copy', 'move'):
            continue
        l = t['op']['pl']['l']
        for s in bb['stmts']:
            if s['k'] == 'assign' and s['dst']['l'] == l and s['rv']['k'] == 'discr' and 'adt' in s['rv']:
                out.append((bi, s['rv']['adt'], s['rv']['variants'], t, pv.of_place(s['rv']['pl'])))
    return out


def arm_context(F, b, site):
    """labels 'Enum::Variant' of switch edges that dominate block `site`"""
    cfg = F.cfg(b)
    ctxs = []
    for sbi, enum, variants, st, subj in enum_switches(F, b):
        if enum.startswith('std::'):
            continue
        named = [v for v, _ in st['targets']]
        for v, tgt in st['targets']:
            if v < len(variants) and cfg.edge_dominates(sbi, tgt, site):
                ctxs.append('%s::%s' % (enum.split('::')[-1], variants[v]))
        rest = [variants[i] for i in range(len(variants)) if i not in named]
        if len(rest) == 1 and st['otherwise'] not in [tg for _, tg in st['targets']] and cfg.edge_dominates(sbi, st['otherwise'], site):
            ctxs.append('%s::%s' % (enum.split('::')[-1], rest[0]))
    return ctxs


def entries(ctx, flavours=None, fams=BUILDERS, which=None):
    """entry-point bodies: methods of builder types that call at least one kernel (and are not kernels).
    which = 'cycle' keeps the entries that set self.target themselves (search_cycle), 'path' the others"""
    F = ctx.F
    kq = {K.q: K for K in ctx.kernels()}
    out = []
    for q, b in sorted(F.bodies.items()):
        if b['kind'] == 'Closure' or q in kq or b['impl_trait'] or q in getattr(F, 'absorbed', ()):
            continue
        fam = b['impl_self_q'].split('::')[-1]
        if fam not in fams or '::node::algo::' not in b['impl_self_q']:
            continue
        if flavours and F.flavour(b) not in flavours:
            continue
        sites = [(bi, t, kq[t['res']]) for bi, t in calls_in(b, lambda t: t.get('local') and t.get('res') in kq)]
        if sites:
            if which is not None:
                cyc = _is_cycle_entry(F, b, None)
                if (which == 'cycle') != cyc:
                    continue
            out.append((b, sites))
    return out


def kernel_labels(ctx):
    F = ctx.F
    table = {}
    for b, sites in entries(ctx):
        for bi, t, K in sites:
            table.setdefault(K.q, set()).update(arm_context(F, b, bi))
    return table


def tr1(ctx, flavours, fams=BUILDERS, which=None):
    """Transposition::Outbound arms reach OUT kernels, Inbound arms reach IN kernels"""
    from .rules_kernel import direction
    F = ctx.F
    out = []
    for b, sites in entries(ctx, flavours, fams, which):
        for bi, t, K in sites:
            labs = arm_context(F, b, bi)
            tl = [l.split('::')[-1] for l in labs if l.startswith('Transposition::')]
            d = direction(K) if not K.missing else 'MALFORMED'
            want = {'Outbound': 'OUT', 'Inbound': 'IN'}
            if len(tl) != 1:
                ok = False
                why = 'kernel call is not under exactly one Transposition arm (%s)' % labs
            else:
                ok = want[tl[0]] == d
                why = '%s arm -> %s (%s kernel)' % (tl[0], K.name, d)
            out.append(Obl('TR1', b['q'], F.where(b, bi), 'arms %s -> %s' % ('+'.join(labs), K.name), ok, why))
    return out


def pfs1(ctx, flavours, which=None):
    """Priority::Min arms use a Reverse heap seeded with Reverse(root); Max arms have no Reverse"""
    F = ctx.F
    out = []
    for b, sites in entries(ctx, flavours, ('Pfs',), which):
        pv = F.prov(b)
        for bi, t, K in sites:
            labs = arm_context(F, b, bi)
            pl = [l.split('::')[-1] for l in labs if l.startswith('Priority::')]
            why = []
            if len(pl) != 1:
                why.append('kernel call is not under exactly one Priority arm (%s)' % labs)
            else:
                want_rev = pl[0] == 'Min'
                if K.front_reverse != want_rev:
                    why.append('%s arm calls a kernel whose heap %s Reverse' % (pl[0], 'uses' if K.front_reverse else 'does not use'))
                # seed: the heap argument passed receives exactly one push in this arm, of [Reverse](clone(self.root))
                fa = t['args'][-1]
                heap_l = strip_payload(pv.of_operand(fa))
                seeds = []
                for sbi, stt in calls_in(b, lambda x: callee_name(x).endswith('BinaryHeap::push')):
                    recv = strip_payload(pv.of_operand(stt['args'][0]))
                    if recv == heap_l:
                        seeds.append((sbi, stt))
                if len(seeds) != 1:
                    why.append('%d seed pushes into the heap handed to the kernel' % len(seeds))
                else:
                    st = pv.of_operand(seeds[0][1]['args'][1])
                    wrapped = isinstance(st, tuple) and st[0] == 'aggr' and st[1] == 'adt:std::cmp::Reverse::Reverse'
                    inner = st[2][0] if wrapped else st
                    if wrapped != want_rev:
                        why.append('seed is %swrapped in Reverse' % ('' if wrapped else 'not '))
                    if strip_payload(inner) != ('f', ('param', 1), _root_field(F, b)):
                        why.append('seed is %s, not self.root' % pretty(inner))
                    if not F.cfg(b).dominates(seeds[0][0], bi):
                        why.append('seed does not dominate the kernel call')
            out.append(Obl('PFS1', b['q'], F.where(b, bi), 'arms %s -> %s' % ('+'.join(labs), K.name), not why, '; '.join(why) if why else 'heap/Reverse/seed consistent'))
    return out


def _field_index(F, adt_path, name):
    adt = F.adts.get(adt_path)
    if not adt:
        return None
    for i, f in enumerate(adt['variants'][0]['fields']):
        if f['name'] == name:
            return str(i)
    return None


def _root_field(F, b):
    return _field_index(F, b['impl_self_q'], 'root') or '0'


def tr2(ctx, flavours):
    """constructors store Transposition::Outbound; the only other store is Inbound in transpose()"""
    F = ctx.F
    out = []
    for fl in flavours:
        for q, b in sorted(F.bodies.items()):
            if F.flavour(b) != fl or b['kind'] == 'Closure' or b['impl_trait'] or q in getattr(F, 'absorbed', ()):
                continue
            fam = b['impl_self_q'].split('::')[-1]
            if fam not in BUILDERS or '::node::algo::' not in b['impl_self_q']:
                continue
            adt = F.adts.get(b['impl_self_q'])
            if not adt:
                continue
            fnames = [f['name'] for f in adt['variants'][0]['fields']]
            tfs = [i for i, f in enumerate(adt['variants'][0]['fields']) if F.types[f['ty']]['s'].endswith('::Transposition')]
            if not tfs:
                continue
            ti = tfs[0]
            pv = F.prov(b)
            stores = []
            for bi, bb in enumerate(b['blocks']):
                if bb['cleanup']:
                    continue
                for s in bb['stmts']:
                    if s['k'] != 'assign':
                        continue
                    rv = s['rv']
                    # whole-struct aggregate
                    if rv['k'] == 'aggr' and rv['ak'] == 'adt:%s::%s' % (b['impl_self_q'], adt['variants'][0]['name']):
                        tm_ = strip_payload(pv.of_operand(rv['ops'][ti]))
                        if tm_ == ('f', ('param', 1), str(ti)):
                            continue      # struct-update syntax (`Self { x, ..self }`): this field is carried over unchanged
                        # a builder rebuilt from self by value is a setter, not a constructor
                        kind_ = 'store' if F.types[b['locals'][1]].get('p') == b['impl_self_q'] and b['argc'] >= 1 else 'ctor'
                        stores.append((s['sp'], kind_, pv.of_operand(rv['ops'][ti])))
                    # field store
                    elif s['dst']['p'] and s['dst']['p'][-1].split(':')[0] == '.%d' % ti and F.types[b['locals'][s['dst']['l']]].get('p', F.types[F.types[b['locals'][s['dst']['l']]]['a'][0]].get('p') if F.types[b['locals'][s['dst']['l']]]['a'] else None) == b['impl_self_q']:
                        if rv['k'] == 'aggr':
                            stores.append((s['sp'], 'store', ('aggr', rv['ak'], ())))
                        else:
                            stores.append((s['sp'], 'store', pv.of_operand(rv['ops'][0]) if rv.get('ops') else ('?',)))
            if b['name'] == 'transpose' and not any(k_ == 'store' for _, k_, _ in stores):
                out.append(Obl('TR2', q, b['span'], 'transpose() stores Transposition::Inbound', False, 'transpose() stores no direction (the search stays forward)'))
            for sp, kind, term in stores:
                v = term[1].split('::')[-1] if isinstance(term, tuple) and term[0] == 'aggr' else pretty(term)
                if kind == 'ctor':
                    ok = v == 'Outbound'
                    out.append(Obl('TR2', q, sp, 'constructor default direction', ok, 'stores Transposition::%s' % v))
                else:
                    ok = v == 'Inbound' and b['name'] == 'transpose'
                    out.append(Obl('TR2', q, sp, 'direction store outside constructors', ok, '%s stores Transposition::%s' % (b['name'], v)))
    return out


def init(ctx, flavours, fams=BUILDERS, which=None):
    """INIT: path/target/order entries mark the root visited and seed the frontier with it before the kernel call;
    CYC-INIT: cycle entries set target := key(root), seed the frontier and do NOT mark the root."""
    F = ctx.F
    out = []
    for b, sites in entries(ctx, flavours, fams, which):
        pv = F.prov(b)
        cfg = F.cfg(b)
        rootf = _root_field(F, b)
        ROOT = ('f', ('param', 1), rootf)
        KEYROOT = key_of(ROOT)
        is_cycle = _is_cycle_entry(F, b, ROOT)
        for bi, t, K in sites:
            why = []
            vis_arg = strip_payload(pv.of_operand(t['args'][K.vis - 1]))
            front_arg = strip_payload(pv.of_operand(t['args'][K.front - 1])) if K.front else None
            ins = [(sbi, st) for sbi, st in calls_in(b, lambda x: callee_name(x).split('::')[-1] == 'insert') if strip_payload(pv.of_operand(st['args'][0])) == vis_arg]
            adds = [(sbi, st) for sbi, st in calls_in(b, lambda x: callee_name(x).split('::')[-1] in ('push_back', 'push_front', 'push')) if front_arg is not None and strip_payload(pv.of_operand(st['args'][0])) == front_arg and (cfg.dominates(sbi, bi))]
            ins = [(sbi, st) for sbi, st in ins if cfg.dominates(sbi, bi) or cfg.path_exists(sbi, bi)]

            def literal(src_):
                """elements of a collection built from a literal: `X::from([a, b])` (array term) or `vec![a, b]` (array written into a fresh box)"""
                if isinstance(src_, tuple) and src_ and src_[0] == 'aggr' and src_[1].startswith('array'):
                    return [strip_payload(x) for x in src_[2]]
                # `HashSet::from_iter([a])` / `X::from([a])` / `[a].into_iter().collect()`
                if isinstance(src_, tuple) and src_ and src_[0] == 'call' and src_[1].split('::')[-1].rstrip('>') in ('from_iter', 'from', 'collect') and len(src_[2]) == 1:
                    inner_ = strip_payload(src_[2][0])
                    while isinstance(inner_, tuple) and inner_ and inner_[0] == 'call' and inner_[1].split('::')[-1].rstrip('>') in ('into_iter', 'iter') and len(inner_[2]) == 1:
                        inner_ = strip_payload(inner_[2][0])
                    if isinstance(inner_, tuple) and inner_ and inner_[0] == 'aggr' and inner_[1].startswith('array'):
                        return [strip_payload(x) for x in inner_[2]]
                if isinstance(src_, tuple) and src_ and src_[0] == 'call' and 'into_vec' in src_[1]:
                    els = None
                    for abi, abb in enumerate(b['blocks']):
                        if abb['cleanup'] or not cfg.dominates(abi, bi):
                            continue
                        for s_ in abb['stmts']:
                            if s_['k'] == 'assign' and s_['rv']['k'] == 'aggr' and s_['rv']['ak'].startswith('array') and s_['dst']['p']:
                                base_ = strip_payload(pv.of_local(s_['dst']['l']))
                                allocs = {c_[3] for c_ in term_calls(src_) if c_[1].endswith('new_uninit') or c_[1].endswith('Box::new')}
                                if allocs and any(c_[3] in allocs for c_ in term_calls(base_)):
                                    els = [strip_payload(pv.of_operand(o)) for o in s_['rv']['ops']]
                    return els
                return None
            vis_lit = literal(vis_arg)
            front_lit = literal(front_arg) if front_arg is not None else None
            # frontier seed
            if K.front is None and getattr(K, 'node_param', None):
                seed = strip_payload(pv.of_operand(t['args'][K.node_param - 1]))
                if seed != ROOT:
                    why.append('the kernel is started at %s, not at the root' % pretty(seed))
            elif not adds and front_lit is not None:
                fl_ = [x[2][0] if isinstance(x, tuple) and x and x[0] == 'aggr' and x[1] == 'adt:std::cmp::Reverse::Reverse' else x for x in front_lit]
                if [strip_payload(x) for x in fl_] != [ROOT]:
                    why.append('frontier literal holds %s, not exactly the root' % [pretty(x) for x in front_lit])
            elif len(adds) != 1:
                why.append('%d frontier seeds before the kernel call' % len(adds))
            else:
                at = pv.of_operand(adds[0][1]['args'][1])
                if isinstance(at, tuple) and at[0] == 'aggr' and at[1] == 'adt:std::cmp::Reverse::Reverse':
                    at = at[2][0]
                if strip_payload(at) != ROOT:
                    why.append('frontier seeded with %s, not the root' % pretty(at))
            if is_cycle:
                if ins or vis_lit:
                    why.append('cycle search marks a node visited before the kernel runs (root could never be re-discovered)')
                rule = 'CYC-INIT'
                inst = 'cycle entry: target := key(root), root queued, root not marked'
            else:
                rule = 'INIT'
                inst = 'entry: root marked visited and queued before the kernel'
                if not ins and vis_lit is not None:
                    if vis_lit != [KEYROOT]:
                        why.append('visited literal holds %s, not exactly key(root)' % [pretty(x) for x in vis_lit])
                elif len(ins) != 1:
                    why.append('%d visited inserts before the kernel call' % len(ins))
                else:
                    kt = strip_payload(pv.of_operand(ins[0][1]['args'][1]))
                    if kt != KEYROOT:
                        why.append('marks %s, not key(root)' % pretty(kt))
                    if not cfg.dominates(ins[0][0], bi):
                        why.append('mark does not dominate the kernel call')
            # the kernel receives self and fresh collections
            if strip_payload(pv.of_operand(t['args'][0])) != ('param', 1):
                why.append('kernel not invoked on self')
            for role, idx in (('visited set', K.vis), ('frontier', K.front or 0), ('edge list', K.result)):
                if not idx:
                    continue
                src = strip_payload(pv.of_operand(t['args'][idx - 1]))
                fresh = isinstance(src, tuple) and src[0] == 'call' and src[1].split('::')[-1].rstrip('>') in ('new', 'default', 'with_capacity') and not src[2][:0]
                fresh = fresh or (isinstance(src, tuple) and src[0] == 'call' and src[1].endswith('into_vec'))   # vec![] literal
                fresh = fresh or literal(src) is not None                                                       # X::from([..]) / vec![..]
                if not fresh:
                    # state carried over from an earlier call is acceptable only when it is emptied first
                    cleared = [cb for cb, ct in calls_in(b, lambda x: callee_name(x).split('::')[-1] == 'clear') if strip_payload(pv.of_operand(ct['args'][0])) == src and cfg.dominates(cb, bi)]
                    if not cleared:
                        why.append('the %s handed to the kernel is not fresh (%s) and is not cleared first: state of an earlier search leaks into this one' % (role, pretty(src)))
            out.append(Obl(rule, b['q'], F.where(b, bi), '%s -> %s' % (inst, K.name), not why, '; '.join(why) if why else 'ok'))
        if is_cycle:
            # target := Some(clone(key(root)))
            ok = _sets_target_to_root(F, b, ROOT)
            out.append(Obl('CYC-INIT', b['q'], b['span'], 'target := key(root)', ok, 'self.target := Some(key(root))' if ok else 'target is not set to the root key'))
    return out


def _target_field(F, b):
    return _field_index(F, b['impl_self_q'], 'target')


def _sets_target_to_root(F, b, ROOT):
    tf = _target_field(F, b)
    if tf is None:
        return False
    pv = F.prov(b)
    for bb in b['blocks']:
        if bb['cleanup']:
            continue
        for s in bb['stmts']:
            if s['k'] == 'assign' and s['dst']['p'] and s['dst']['p'][-1].split(':')[0] == '.' + tf and s['dst']['l'] == 1 or \
               (s['k'] == 'assign' and s['dst']['p'] and s['dst']['p'][-1].split(':')[0] == '.' + tf and pv.of_local(s['dst']['l']) == ('param', 1)):
                rv = s['rv']
                term = None
                if rv['k'] == 'aggr' and rv['ak'].endswith('Option::Some'):
                    term = pv.of_operand(rv['ops'][0])
                elif rv['k'] == 'use':
                    term = pv.of_operand(rv['ops'][0])
                    if isinstance(term, tuple) and term[0] == 'aggr' and term[1].endswith('Option::Some'):
                        term = term[2][0]
                if term is not None and strip_payload(term) == key_of(ROOT):
                    return True
    return False


def _is_cycle_entry(F, b, ROOT):
    """a cycle entry is one that assigns self.target (any value) -- by effect, not by name"""
    tf = _target_field(F, b)
    if tf is None:
        return False
    for bb in b['blocks']:
        if bb['cleanup']:
            continue
        for s in bb['stmts']:
            if s['k'] == 'assign' and s['dst']['p'] and s['dst']['p'][-1].split(':')[0] == '.' + tf:
                base = F.types[b['locals'][s['dst']['l']]]
                inner = F.types[base['a'][0]] if base['k'] == 'ref' else base
                if inner.get('p') == b['impl_self_q']:
                    return True
    return False


def result_map(ctx, flavours, fams=('Bfs', 'Dfs', 'Pfs'), which=None):
    """kernel bool/Option is mapped true -> Some(Path::from_edge_tree(edges)), false -> None; find-kernels returned as is"""
    F = ctx.F
    out = []
    for b, sites in entries(ctx, flavours, fams, which):
        pv = F.prov(b)
        cfg = F.cfg(b)
        for bi, t, K in sites:
            why = []
            if K.result:
                te, fe = cfg.bool_edges(t['dst']['l'], t['target'])
                res_arg0 = strip_payload(pv.of_operand(t['args'][K.result - 1]))
                me = ('call', t['res'], tuple(pv.of_operand(a) for a in t['args']), bi)
                # accepted idiom: found.then(|| Path::from_edge_tree(edges))  (= Some(..) when true, None otherwise)
                thens = [(cbi, ct) for cbi, ct in calls_in(b, lambda x: callee_name(x) == 'std::primitive::bool::then' or callee_name(x).endswith('bool::then') or callee_name(x) == 'bool::then')
                         if strip_payload(pv.of_operand(ct['args'][0])) == me or (isinstance(pv.of_operand(ct['args'][0]), tuple) and pv.of_operand(ct['args'][0])[0] == 'join' and me in pv.of_operand(ct['args'][0])[1])]
                if te is None and thens:
                    from .core import closure_result
                    ok_then = False
                    for cbi, ct in thens:
                        if not cfg.path_exists(bi, cbi):
                            continue
                        clo = pv.of_operand(ct['args'][1])
                        cr = closure_result(F, clo, [])
                        cr = unwrap_payload(cr) if cr is not None else None
                        if isinstance(cr, tuple) and cr and cr[0] == 'call' and re.search(r'::Path::from_edge_tree$', cr[1]) and strip_payload(cr[2][0]) == res_arg0:
                            ok_then = True
                    if not ok_then:
                        why.append('bool::then does not build the path from the edge tree the kernel filled')
                elif te is None:
                    why.append('kernel result is not branched on')
                else:
                    # on the true edge: Some(from_edge_tree(edges)) with edges = the result vector handed to the kernel
                    res_arg = strip_payload(pv.of_operand(t['args'][K.result - 1]))
                    fe_calls = [(cbi, ct) for cbi, ct in calls_in(b, lambda x: x.get('local') and re.search(r'::Path::from_edge_tree$', x.get('res', ''))) if cfg.edge_dominates(te[0], te[1], cbi)]
                    if len(fe_calls) != 1:
                        why.append('%d path constructions on the found arm' % len(fe_calls))
                    else:
                        if strip_payload(pv.of_operand(fe_calls[0][1]['args'][0])) != res_arg:
                            why.append('path is not built from the edge tree the kernel filled')
                    # false edge leads to None: no from_edge_tree reachable
                    bad = [cbi for cbi, ct in calls_in(b, lambda x: x.get('local') and re.search(r'::Path::from_edge_tree$', x.get('res', ''))) if cfg.edge_dominates(fe[0], fe[1], cbi)]
                    if bad:
                        why.append('a path is built on the not-found arm')
            else:
                # find kernels: result flows to the return value unchanged
                if t['dst']['l'] != 0 and strip_payload(pv.of_local(0)) != ('call', t['res'], tuple(pv.of_operand(a) for a in t['args']), bi):
                    rt = pv.of_local(0)
                    if not term_mentions(rt, lambda z: isinstance(z, tuple) and z and z[0] == 'call' and z[1] == t['res']):
                        why.append('kernel result is not returned')
            out.append(Obl('RESMAP', b['q'], F.where(b, bi), 'result of %s mapped to the API result' % K.name, not why, '; '.join(why) if why else 'ok'))
    return out


# ---------------------------------------------------------------------------------------------------------------------
# ENTRY-PASS: an entry point answers by running a kernel.  A path from the start of an entry to its return that avoids
# every kernel call is a shortcut; it is accepted only when it is taken on the true edge of a predicate of self.root that
# implies that every adjacency list the entry's kernels would walk is empty, and what it returns is what the kernels
# would have produced for such a root (None / false / no edges / [root]).
ALL_ROLES = frozenset(('OUT', 'IN'))


def emptiness(ctx, q, _depth=0):
    """roles of the adjacency lists of the receiver that are certainly empty when bool fn q(receiver, ..) returns true"""
    from .rules_edge import model
    from .effects import footprint
    F = ctx.F
    key = ('emptiness', q)
    if key in ctx.cache:
        return ctx.cache[key]
    ctx.cache[key] = frozenset()
    b = F.bodies.get(q)
    if b is None or _depth > 4 or F.types[b['locals'][0]].get('s') != 'bool':
        return frozenset()
    M = model(ctx, F.flavour(b))
    pv, cfg = F.prov(b), F.cfg(b)
    P1 = ('param', 1)

    def imp(term):
        term = strip_payload(term)
        if term == ('const', 'false'):
            return ALL_ROLES
        if isinstance(term, tuple) and term and term[0] == 'binop' and term[1] == 'Eq':
            a, c = term[2]
            if strip_payload(a) in (('const', '0'), ('const', '0_usize')):
                a, c = c, a
            a = strip_payload(a)
            if strip_payload(c) in (('const', '0'), ('const', '0_usize')) and isinstance(a, tuple) and a and a[0] == 'call' and a[1] in F.bodies \
                    and a[1].split('::')[-1].startswith('len') and term_mentions(a, lambda z: z == P1):
                fp = M.reads(a[1]) if a[1] in M.methods else footprint(F, M, F.bodies[a[1]])
                return frozenset(M.role(f) for f in fp)
            return frozenset()
        if isinstance(term, tuple) and term and term[0] == 'call' and term[1] in F.bodies and term[2] and strip_payload(term[2][0]) == P1 and len(term[2]) == 1:
            return emptiness(ctx, term[1], _depth + 1)
        return frozenset()
    # tests: boolean locals that are branched on
    tests = []
    for l in range(len(b['locals'])):
        if F.types[b['locals'][l]].get('s') != 'bool' or l == 0:
            continue
        for term, bi in pv.def_terms(l):
            tgt = b['blocks'][bi]['term'].get('target', bi) if any(k == 'call' and d is b['blocks'][bi]['term'] for k, d, _ in pv.defs.get(l, [])) else bi
            te, fe = cfg.bool_edges(l, tgt if tgt >= 0 else bi)
            if te is not None:
                tests.append((te, imp(term)))
    res = None
    for term, bi in pv.def_terms(0):
        got = set(imp(term))
        for te, im in tests:
            if cfg.edge_dominates(te[0], te[1], bi):
                got |= im
        res = got if res is None else (res & got)
    res = frozenset(res or ())
    ctx.cache[key] = res
    return res


def entry_pass(ctx, flavours, fams=BUILDERS, which=None):
    F = ctx.F
    out = []
    for b, sites in entries(ctx, flavours, fams, which):
        cfg, pv = F.cfg(b), F.prov(b)
        kb = {bi for bi, _, _ in sites}
        # blocks that can still reach a kernel call
        can = set(kb)
        changed = True
        while changed:
            changed = False
            for i in cfg.reach:
                if i not in can and any(s in can for s in cfg.succ[i]):
                    can.add(i)
                    changed = True
        r0 = cfg.reachable_from(0, avoiding=kb)
        esc = []
        for s_ in sorted(r0 & can):
            if s_ in kb:
                continue
            for t_ in cfg.succ[s_]:
                if t_ not in can and any(b['blocks'][x]['term']['k'] == 'return' for x in cfg.reachable_from(t_)):
                    esc.append((s_, t_))
        if 0 not in can:
            continue
        need = set()
        for _, _, K in sites:
            c = getattr(K, 'iter_ctor', None)
            need |= {'OUT'} if c == 'iter_out' else ({'IN'} if c == 'iter_in' else {'OUT', 'IN'})
        ROOT = ('f', ('param', 1), _root_field(F, b))
        why = []
        sc_blocks = set()
        for s_, t_ in esc:
            sw = b['blocks'][s_]['term']
            w = None
            if sw['k'] != 'switch':
                w = 'leaves through a %s terminator' % sw['k']
            else:
                dt = strip_payload(pv.of_operand(sw['op']))
                neg = False
                while isinstance(dt, tuple) and dt and dt[0] == 'unop':
                    dt = strip_payload(dt[2])
                    neg = not neg
                if not (isinstance(dt, tuple) and dt and dt[0] == 'call' and dt[1] in F.bodies and len(dt[2]) == 1 and strip_payload(dt[2][0]) == ROOT):
                    w = 'is decided by %s, not by a predicate of self.root' % pretty(dt)[:80]
                else:
                    is_true_edge = (t_ == sw['otherwise'] and t_ not in [x for v, x in sw['targets'] if v == 0]) != neg
                    em = emptiness(ctx, dt[1])
                    if not is_true_edge:
                        w = 'is taken when %s is false' % dt[1].split('::')[-1]
                    elif not need <= em:
                        w = '%s only implies that the %s list(s) are empty; the kernels of this entry walk %s' % (dt[1].split('::')[-1], '+'.join(sorted(em)) or 'no', '+'.join(sorted(need)))
            zone = cfg.reachable_from(t_)
            if w is None:
                # value returned on the shortcut
                rt = F.types[b['locals'][0]]
                for term, bi in pv.def_terms(0):
                    if bi not in zone:
                        continue
                    term_s = strip_payload(term)
                    if rt.get('p') == 'std::option::Option':
                        good = isinstance(term_s, tuple) and term_s[0] == 'aggr' and term_s[1].endswith('Option::None')
                    elif rt.get('s') == 'bool':
                        good = term_s == ('const', 'false')
                    elif rt.get('p') == 'std::vec::Vec':
                        nodes = F.ty_has_adt(b['locals'][0], r'::node::Node$') and not F.ty_has_adt(b['locals'][0], r'::node::Edge$')
                        mentions_self = term_mentions(term, lambda z: z == ('param', 1))
                        if nodes:
                            # the list literal [root]: one element (array aggregate of `vec![..]` or a push), which is self.root
                            after_k = set()
                            for k_ in kb:
                                after_k |= cfg.reachable_from(k_)
                            zx = [x for x in zone if x not in after_k]
                            elems, other = [], []
                            for x in zx:
                                for st in b['blocks'][x]['stmts']:
                                    if st['k'] == 'assign' and st['rv']['k'] == 'aggr' and st['rv']['ak'].startswith('array'):
                                        elems += [strip_payload(pv.of_operand(o)) for o in st['rv']['ops']]
                                tt = b['blocks'][x]['term']
                                if tt['k'] == 'call':
                                    if callee_name(tt).endswith('Vec::push'):
                                        elems.append(strip_payload(pv.of_operand(tt['args'][1])))
                                    elif tt.get('local') and tt.get('res') in F.bodies and not tt['res'].endswith('::clone'):
                                        other.append(tt['res'])
                            good = elems == [ROOT] and not other
                        else:
                            good = not mentions_self and not any(c[1] in F.bodies for c in term_calls(term))
                    else:
                        good = False
                    if not good:
                        w = 'returns %s' % pretty(term)[:80]
            if w is None:
                sc_blocks |= zone
            else:
                why.append('a path that reaches no kernel leaves at %s and %s' % (F.where(b, s_), w))
        b['shortcut_blocks'] = sorted(sc_blocks)
        out.append(Obl('ENTRY-PASS', b['q'], b['span'], 'every answer comes from a kernel run (or from a shortcut that is sound for every arm)', not why,
                       '; '.join(why) if why else ('%d kernel call sites; %d sound shortcut(s)' % (len(sites), len(esc)))))
    return out


# ---------------------------------------------------------------------------------------------------------------------
# CONF: a search object is configuration (root, target, method, transposition, priority/ordering).  Kernels and entry
# points read it; the only writes are the callback dispatcher's own state (`method`, which holds the user's FnMut) and
# `target := key(root)` at the start of a cycle entry.  Anything else makes one search depend on the previous one.
def conf_ro(ctx, flavours, fams=BUILDERS, which=None):
    F = ctx.F
    out = []
    seen = set()
    todo = []
    for b, sites in entries(ctx, flavours, fams, which):
        todo.append((b, 'entry'))
        for _, _, K in sites:
            todo.append((K.b, 'kernel'))
    for b, kind in todo:
        if b['q'] in seen:
            continue
        seen.add(b['q'])
        pv = F.prov(b)
        cyc = kind == 'entry' and _is_cycle_entry(F, b, None)
        why = []

        def self_field(pl):
            """name of the field of *self that place pl starts in, or None"""
            if not pl['p']:
                return None
            base = strip_payload(pv.of_local(pl['l'])) if pl['l'] != 1 else ('param', 1)
            if base != ('param', 1):
                return None
            for p_ in pl['p']:
                if p_ == '*':
                    continue
                m = re.match(r'^\.(\d+)(?::(\w+))?', p_)
                return (m.group(2) or m.group(1)) if m else None
            return None
        for bi, bb in enumerate(b['blocks']):
            if bb['cleanup'] or bi not in F.cfg(b).reach:
                continue
            for st in bb['stmts']:
                if st['k'] != 'assign' or st.get('exp', '').startswith('desugar:') and False:
                    continue
                f = self_field(st['dst'])
                if f is not None and not (cyc and f == 'target'):
                    # (`method` included: the callback is *called* through &mut, never replaced -- a kernel that swaps it out
                    # while it recurses leaves the nested kernels with another callback)
                    why.append('writes self.%s at %s' % (f, st['sp']))
                rv = st['rv']
                if rv['k'] == 'ref' and rv.get('mut'):
                    f = self_field(rv['pl'])
                    if f is not None and f != 'method':
                        why.append('takes &mut self.%s at %s' % (f, st['sp']))
            tt = bb['term']
            if tt['k'] == 'call' and re.search(r'^std::mem::(replace|take|swap)$|^std::option::Option::(take|replace|insert|get_or_insert\w*)$|^std::ptr::(write|replace|swap|read)$', tt['callee']):
                for a_ in tt['args']:
                    if a_.get('k') in ('move', 'copy'):
                        at_ = strip_payload(pv.of_operand(a_))
                        if isinstance(at_, tuple) and at_ and at_[0] == 'f' and strip_payload(at_[1]) == ('param', 1):
                            why.append('%s on a field of self at %s' % (tt['callee'].split('::')[-1], tt['sp']))
        out.append(Obl('CONF', b['q'], b['span'], 'the %s does not modify the search configuration (the callback is only called%s)' % (kind, ', and `target` in a cycle entry' if cyc else ''), not why,
                       '; '.join(sorted(set(why))) if why else 'read-only'))
    return out


# ---------------------------------------------------------------------------------------------------------------------
# TR-PAIR: transpose() must run *the same algorithm* on the reversed edges.  The kernel an entry reaches under
# Transposition::Inbound and the one it reaches under Outbound (all other arms equal) are compared by their discipline
# signature: which of the role sites (next, callback, visited test, mark, record, advance, descent, target test) dominates
# which, plus frontier discipline and emission position.  Orientation itself (iter_out/ITEM vs iter_in/REV) is TR0/TR1's.
def _discipline(K):
    """idiom-invariant facts about the order of the role sites (a dict name -> value)"""
    if K.missing:
        return {'roles': 'missing'}
    S, cfg = K.sites, K.cfg

    def ed(edge, site):
        return edge is not None and site in S and cfg.edge_dominates(edge[0], edge[1], S[site])

    def dom(a, c):
        return a in S and c in S and S[a] != S[c] and cfg.dominates(S[a], S[c])
    d = {
        'family': K.family,
        'callback before the visited test': ed(K.exec_true, 'CONTAINS'),
        'visited test before the callback': ed(K.notvis, 'EXEC'),
        'mark only when unvisited': K.insert_is_test or ed(K.notvis, 'INSERT'),
        'mark only when accepted': ed(K.exec_true, 'INSERT'),
        'advance only when unvisited': ed(K.notvis, 'ADVANCE'),
        'advance only when accepted': ed(K.exec_true, 'ADVANCE'),
        'take': K.take_m, 'add': K.add_m, 'frontier': K.front_adt.split('::')[-1], 'reverse heap': K.front_reverse,
        'records': bool(K.result), 'has target test': K.teq_true is not None,
        'result kinds': tuple(sorted({k for _, k, _ in K.rets} - {'propagate'})),
    }
    if K.result:
        d['record only when unvisited'] = ed(K.notvis, 'RECORD')
        d['record only when accepted'] = ed(K.exec_true, 'RECORD')
        if K.recurse:
            d['record before descent'] = dom('RECORD', 'RECURSE')
            d['descent before record'] = dom('RECURSE', 'RECORD')
    if K.teq_true is not None and K.teq_site is not None:
        d['target test only when unvisited'] = K.notvis is not None and cfg.edge_dominates(K.notvis[0], K.notvis[1], K.teq_site)
        d['advance skipped for the target'] = 'ADVANCE' in S and not cfg.edge_dominates(K.teq_true[0], K.teq_true[1], S['ADVANCE']) and not cfg.path_exists(K.teq_true[1], S['ADVANCE'], avoiding={S['NEXT']})
    return d


def tr_pair(ctx, flavours, fams=BUILDERS, which=None):
    F = ctx.F
    out = []
    seen = set()
    for b, sites in entries(ctx, flavours, fams, which):
        groups = {}
        for bi, t, K in sites:
            labs = arm_context(F, b, bi)
            tl = [l for l in labs if l.startswith('Transposition::')]
            if len(tl) != 1:
                continue
            rest = tuple(sorted(l for l in labs if not l.startswith('Transposition::')))
            groups.setdefault(rest, {})[tl[0].split('::')[-1]] = K
        for rest, g in sorted(groups.items()):
            if 'Outbound' not in g or 'Inbound' not in g:
                continue
            Ko, Ki = g['Outbound'], g['Inbound']
            if (Ko.q, Ki.q) in seen:
                continue
            seen.add((Ko.q, Ki.q))
            so, si = _discipline(Ko), _discipline(Ki)
            if so == si:
                why = 'same discipline (%d facts)' % len(so)
            else:
                why = '; '.join('%s: forward %s / transposed %s' % (k, so.get(k), si.get(k)) for k in sorted(set(so) | set(si)) if so.get(k) != si.get(k))
            out.append(Obl('TR-PAIR', Ki.q, F.where(Ki.b), 'transposed kernel %s follows the same discipline as %s (%s)' % (Ki.name, Ko.name, '+'.join(rest) or 'no other arm'), so == si, why))
    return out


# ---------------------------------------------------------------------------------------------------------------------
# OPT: option setters and constructors store what their public name says: Pfs::min -> Priority::Min, Pfs::max -> Priority::Max,
# Node::preorder() -> an Order with Ordering::Pre, Node::postorder() -> Ordering::Post, order setters accordingly.
def _enum_stores(F, b, enum_suffix):
    """[(span, 'ctor'|'store', variant)] of values of the enum type (by suffix of its path) stored into the builder by b"""
    adt = F.adts.get(b['impl_self_q'])
    if not adt:
        return []
    idxs = [i for i, f in enumerate(adt['variants'][0]['fields']) if F.types[f['ty']]['s'].endswith(enum_suffix)]
    if not idxs:
        return []
    ti = idxs[0]
    pv = F.prov(b)
    out = []
    for bb in b['blocks']:
        if bb['cleanup']:
            continue
        for s in bb['stmts']:
            if s['k'] != 'assign':
                continue
            rv = s['rv']
            term = None
            kind = None
            if rv['k'] == 'aggr' and rv['ak'] == 'adt:%s::%s' % (b['impl_self_q'], adt['variants'][0]['name']):
                term = pv.of_operand(rv['ops'][ti])
                if strip_payload(term) == ('f', ('param', 1), str(ti)):
                    continue      # struct-update syntax: carried over from self
                kind = 'store' if b['argc'] >= 1 and F.types[b['locals'][1]].get('p') == b['impl_self_q'] else 'ctor'
            elif s['dst']['p'] and s['dst']['p'][-1].split(':')[0] == '.%d' % ti:
                lt = F.types[b['locals'][s['dst']['l']]]
                owner = lt.get('p') or (F.types[lt['a'][0]].get('p') if lt.get('a') else None)
                if owner == b['impl_self_q']:
                    kind = 'store'
                    term = ('aggr', rv['ak'], ()) if rv['k'] == 'aggr' else (pv.of_operand(rv['ops'][0]) if rv.get('ops') else ('?',))
            if kind:
                v = term[1].split('::')[-1] if isinstance(term, tuple) and term and term[0] == 'aggr' else pretty(term)
                out.append((s['sp'], kind, v))
    return out


def opt_rules(ctx, flavours, what):
    F = ctx.F
    out = []
    for fl in flavours:
        if what == 'priority':
            for q, b in sorted(F.bodies.items()):
                if F.flavour(b) != fl or b['kind'] == 'Closure' or b['impl_trait'] or not b['impl_self_q'].endswith('::node::algo::pfs::Pfs') or q in getattr(F, 'absorbed', ()):
                    continue
                for sp, kind, v in _enum_stores(F, b, '::Priority'):
                    if kind == 'store' or b['name'] in ('min', 'max'):
                        want = {'min': 'Min', 'max': 'Max'}.get(b['name'])
                        ok = want is not None and v == want
                        out.append(Obl('OPT', q, sp, 'Pfs::%s stores the priority its name says' % b['name'], ok, 'stores Priority::%s' % v))
            for name in ('min', 'max'):
                if not any(o['func'] == '%s::node::algo::pfs::Pfs::%s' % (fl, name) for o in out):
                    out.append(Obl('OPT', '%s::node::algo::pfs::Pfs::%s' % (fl, name), '-', 'Pfs::%s stores the priority its name says' % name, False, 'no store of a Priority found'))
        if what == 'ordering':
            ctor_of = {}
            for q, b in sorted(F.bodies.items()):
                if F.flavour(b) != fl or b['kind'] == 'Closure' or b['impl_trait'] or not b['impl_self_q'].endswith('::node::algo::order::Order') or q in getattr(F, 'absorbed', ()):
                    continue
                for sp, kind, v in _enum_stores(F, b, '::Ordering'):
                    if kind == 'ctor':
                        ctor_of[q] = (sp, v)
                    else:
                        want = 'Pre' if 'pre' in b['name'].lower() else ('Post' if 'post' in b['name'].lower() else None)
                        out.append(Obl('OPT', q, sp, 'Order::%s stores the ordering its name says' % b['name'], want is not None and v == want, 'stores Ordering::%s' % v))
            for name, want in (('preorder', 'Pre'), ('postorder', 'Post')):
                nb = F.bodies.get('%s::node::Node::%s' % (fl, name))
                if nb is None:
                    # the undirected flavours expose order().pre() / .post() instead
                    if not any(o['func'].startswith(fl + '::node::algo::order::Order::') and want.lower() in o['func'].split('::')[-1].lower() for o in out):
                        out.append(Obl('OPT', '%s::node::Node::%s' % (fl, name), '-', 'Node::%s builds an Order with Ordering::%s' % (name, want), False, 'anchor missing'))
                    continue
                got = [ctor_of[t['res']] for bi, t in calls_in(nb, lambda t: t.get('local') and t.get('res') in ctor_of)]
                own = [(sp, v) for sp, kind, v in _enum_stores(F, nb, '::Ordering')]
                got += own
                ok = len(got) == 1 and got[0][1] == want
                out.append(Obl('OPT', nb['q'], nb['span'], 'Node::%s builds an Order with Ordering::%s' % (name, want), ok, 'builds %s' % [v for _, v in got]))
    return out


def set_rules(ctx, flavours, fams=BUILDERS):
    """SET: the builder stores what it is given.  new(root): root = the argument, no target, the Empty callback; target(k): target =
    Some(k) and nothing else changes; for_each(f) / filter(f): the callback becomes ForEach(f) / Filter(f) and nothing else changes."""
    F = ctx.F
    out = []
    P1_, P2_ = ('param', 1), ('param', 2)
    for fl in flavours:
        for fam in fams:
            path = '%s::node::algo::%s::%s' % (fl, fam.lower(), fam)
            adt = F.adts.get(path)
            if not adt:
                continue
            fields = adt['variants'][0]['fields']

            def fidx(pred):
                r = [i for i, f in enumerate(fields) if pred(F.types[f['ty']])]
                return r[0] if len(r) == 1 else None
            i_root = fidx(lambda t: t.get('p') == fl + '::node::Node' or (t['k'] == 'ref' and t.get('a') and F.types[t['a'][0]].get('p') == fl + '::node::Node'))
            i_tgt = fidx(lambda t: t.get('p') == 'std::option::Option')
            i_met = fidx(lambda t: (t.get('p') or '').endswith('::node::algo::method::Method'))

            def stores_of(b):
                """{field index: value term} written by b into the builder it returns (direct field stores and struct aggregates)"""
                pv = F.prov(b)
                st = {}
                by_value = b['argc'] >= 1 and F.types[b['locals'][1]].get('p') == path
                for bb in b['blocks']:
                    if bb['cleanup']:
                        continue
                    for s_ in bb['stmts']:
                        if s_['k'] != 'assign':
                            continue
                        rv = s_['rv']
                        if rv['k'] == 'aggr' and rv['ak'] == 'adt:%s::%s' % (path, adt['variants'][0]['name']):
                            for i, o in enumerate(rv['ops']):
                                t_ = pv.of_operand(o)
                                if by_value and strip_payload(t_) == ('f', P1_, str(i)):
                                    continue
                                st.setdefault(i, []).append(t_)
                        elif s_['dst']['p'] and by_value and (s_['dst']['l'] == 1 or (F.types[b['locals'][s_['dst']['l']]].get('p') == path and strip_payload(pv.of_local(s_['dst']['l'])) == P1_)):
                            # (a moved copy of self: the parameter of a spliced private setter helper)
                            m = re.match(r'^\.(\d+)', s_['dst']['p'][0])
                            if m:
                                t_ = ('aggr', rv['ak'], tuple(pv.of_operand(o) for o in rv['ops'])) if rv['k'] == 'aggr' else (pv.of_operand(rv['ops'][0]) if rv.get('ops') else ('?',))
                                st.setdefault(int(m.group(1)), []).append(t_)
                return st

            def val_ok(t_, variant, payload):
                from .core import deep_unwrap
                t_ = deep_unwrap(t_)
                if not (isinstance(t_, tuple) and t_ and t_[0] == 'aggr' and t_[1].endswith('::' + variant)):
                    return False
                if payload is None:
                    return len(t_[2]) == 0
                return len(t_[2]) == 1 and deep_unwrap(t_[2][0]) == payload
            ctors = sorted(q for q, b_ in F.bodies.items() if b_['impl_self_q'] == path and not b_['impl_trait'] and b_['kind'] != 'Closure' and
                           F.types[b_['locals'][0]].get('p') == path and b_['argc'] >= 1 and F.types[b_['locals'][1]].get('p') != path and
                           F.fns.get(q, {}).get('vis') == 'Public')
            if not ctors:
                out.append(Obl('SET', path, '-', 'builder constructor present', False, 'anchor missing'))
            todo_ = [(q.split('::')[-1], None, True) for q in ctors] + [('target', (i_tgt, 'Some', P2_), False), ('for_each', (i_met, 'ForEach', P2_), False), ('filter', (i_met, 'Filter', P2_), False)]
            for name, want, is_ctor in todo_:
                b = F.bodies.get(path + '::' + name)
                if b is None:
                    if name == 'target' and i_tgt is None:
                        continue
                    out.append(Obl('SET', path + '::' + name, '-', 'builder method present', False, 'anchor missing'))
                    continue
                st = stores_of(b)
                why = []
                if is_ctor:
                    from .core import deep_unwrap
                    if i_root is None or len(st.get(i_root, [])) != 1 or deep_unwrap(st[i_root][0]) != P1_:
                        why.append('root is %s, not the argument' % [pretty(x) for x in st.get(i_root, [])])
                    if i_tgt is not None and not (len(st.get(i_tgt, [])) == 1 and val_ok(st[i_tgt][0], 'None', None)):
                        why.append('initial target is %s, not None' % [pretty(x) for x in st.get(i_tgt, [])])
                    if i_met is None or not (len(st.get(i_met, [])) == 1 and val_ok(st[i_met][0], 'Empty', None)):
                        why.append('initial callback is %s, not Method::Empty' % [pretty(x) for x in st.get(i_met, [])])
                    inst = '%s(root): root = argument, no target, Empty callback' % name
                else:
                    fi, variant, payload = want
                    if fi is None:
                        if name == 'target':
                            continue      # (Order has no target)
                        why.append('field not identified')
                    else:
                        if set(st) != {fi}:
                            why.append('writes fields %s, expected only field %d' % (sorted(st), fi))
                        if len(st.get(fi, [])) != 1 or not val_ok(st[fi][0], variant, payload):
                            why.append('stores %s, expected %s(argument)' % ([pretty(x) for x in st.get(fi, [])], variant))
                        rt = strip_payload(F.prov(b).of_local(0))
                        if not (rt == P1_ or (isinstance(rt, tuple) and rt and rt[0] == 'aggr')):
                            why.append('does not return the updated builder: ' + pretty(rt))
                    inst = '%s(x) stores %s(x) and changes nothing else' % (name, variant)
                out.append(Obl('SET', b['q'], b['span'], inst, not why, '; '.join(why) if why else 'ok'))
    return out


def entry_all(ctx, flavours, fams=BUILDERS):
    """ENTRY-ALL: every public method of a search builder that is neither a constructor nor a setter (does not return the builder)
    answers through a kernel run: it calls a kernel, or another such method.  (A method whose kernel call has been folded away --
    `if true { Some(..) }` -- is no longer discovered as an entry point by the other rules; this one anchors on the API.)"""
    F = ctx.F
    out = []
    ent = {b['q'] for b, sites in entries(ctx, flavours, fams)}
    for fl in flavours:
        for fam in fams:
            path = '%s::node::algo::%s::%s' % (fl, fam.lower(), fam)
            if path not in F.adts:
                continue
            meths = {q: b for q, b in F.bodies.items() if b['impl_self_q'] == path and not b['impl_trait'] and b['kind'] != 'Closure' and q not in getattr(F, 'absorbed', ()) and
                     F.fns.get(q, {}).get('vis') == 'Public' and F.types[b['locals'][0]].get('p') != path and
                     b['argc'] >= 1 and F.types[b['locals'][1]]['k'] == 'ref' and F.types[b['locals'][1]].get('m')}     # `&mut self`: searches drive FnMut callbacks; `&self` getters are not searches
            good = {q for q in meths if q in ent}
            changed = True
            while changed:
                changed = False
                for q, b in meths.items():
                    if q not in good and any(t.get('res') in good for bi, t in calls_in(b, lambda t: t.get('local'))):
                        good.add(q)
                        changed = True
            for q, b in sorted(meths.items()):
                out.append(Obl('ENTRY-ALL', q, b['span'], 'public search method answers through a kernel run', q in good,
                               'calls a kernel (directly or through another search method)' if q in good else 'runs no traversal kernel on any path'))
            if not meths:
                out.append(Obl('ENTRY-ALL', path, '-', 'public search methods present', False, 'anchor missing'))
    return out
