#!/usr/bin/env python3
"""debug helper: dump.py <facts.json> <regex on q> [all]  -- readable MIR listing with provenance"""
import sys, os, re, json
sys.path.insert(0, os.path.dirname(os.path.dirname(os.path.abspath(__file__))))
from gdslint.core import Facts, pretty, callee_name

def opstr(o):
    if o['k'] in ('copy', 'move'):
        return ('mv ' if o['k'] == 'move' else '') + '_%d%s' % (o['pl']['l'], ''.join(o['pl']['p']))
    return o.get('v', '?')

def main():
    norm = '--norm' in sys.argv
    if norm:
        sys.argv.remove('--norm')
        from gdslint.ctx import Ctx
        F = Ctx(sys.argv[1]).F
    else:
        F = Facts(sys.argv[1]); F.summaries()
    pat = sys.argv[2]
    allm = len(sys.argv) > 3
    for q, b in sorted(F.bodies.items()):
        if not re.search(pat, q):
            continue
        pv = F.prov(b)
        print('##', q, 'argc', b['argc'], b['span'])
        if allm:
            for i, t in enumerate(b['locals']):
                print('    _%d: %s %s' % (i, F.ty_s(t), b['dbg'].get(str(i), '')))
        for i, bb in enumerate(b['blocks']):
            if bb['cleanup'] or (norm and i not in F.cfg(b).reach):
                continue
            for s in bb['stmts']:
                if s['k'] == 'assign':
                    rv = s['rv']
                    if allm or rv['k'] in ('binop', 'aggr', 'discr', 'unop') or s['dst']['l'] == 0 or s['dst']['p']:
                        desc = rv['k'] + ' ' + (rv.get('op') or rv.get('ak') or rv.get('adt') or '')
                        ops = [opstr(o) for o in rv.get('ops', [])] if 'ops' in rv else [('_%d%s' % (rv['pl']['l'], ''.join(rv['pl']['p'])))] if 'pl' in rv else []
                        print('   bb%d  _%d%s = %s %s' % (i, s['dst']['l'], ''.join(s['dst']['p']), desc, ops))
                elif allm and s['k'] in ('dead',):
                    print('   bb%d  dead _%d' % (i, s['l']))
            t = bb['term']
            if t['k'] == 'call':
                print('   bb%d  _%d%s = %s(%s) -> bb%d  [%s %s] {%s} @%s' % (i, t['dst']['l'], ''.join(t['dst']['p']), t['callee'], ', '.join(opstr(a) for a in t['args']), t['target'], t['rk'], t['res'] if t['res'] != t['callee'] else '', '; '.join(pretty(pv.of_operand(a)) for a in t['args']), t['sp'].split('/')[-1]))
            elif t['k'] == 'switch':
                print('   bb%d  switch %s -> %s else bb%d   {%s}' % (i, opstr(t['op']), t['targets'], t['otherwise'], pretty(pv.of_operand(t['op']))))
            elif t['k'] == 'drop':
                print('   bb%d  drop _%d%s -> bb%d' % (i, t['pl']['l'], ''.join(t['pl']['p']), t['target']))
            elif t['k'] == 'goto':
                print('   bb%d  goto bb%d' % (i, t['target']))
            elif t['k'] == 'assert':
                print('   bb%d  assert(%s) %s -> bb%d' % (i, opstr(t['op']), t.get('msg', ''), t['target']))
            else:
                print('   bb%d  %s' % (i, t['k']))
main()
