"""Analysis context shared by rule modules (lazy analyses)."""
from .core import Facts
from .guards import GuardAnalysis
from . import kernels as _k


class Ctx:
    def __init__(self, facts_path, tier='quick', repo='/repo', work=None):
        self.F = Facts(facts_path)
        self.F.summaries()
        # helpers extracted from traversal kernels are spliced back into their callers (see inline.py)
        from .inline import absorb_kernel_helpers, inline_direct_closure_calls
        from .normalize import normalize, normalize_combinators
        # closures that are bound to a local and called directly are local functions
        for q, b in list(self.F.bodies.items()):
            nb = inline_direct_closure_calls(self.F, b)
            if nb is not None:
                self.F.bodies[q] = nb
        # Option / Result combinators whose closures call into the Node / Adjacent API become explicit branches
        for q, b in list(self.F.bodies.items()):
            nb = normalize_combinators(self.F, b)
            if nb is not None:
                self.F.bodies[q] = nb
        # iterator consumers / adaptors anywhere whose closure calls into the Node / Graph API (`edges.into_iter().try_for_each(|..| connect ..)`)
        for q, b in list(self.F.bodies.items()):
            if b['kind'] != 'Closure' and _k.kernel_params(self.F, b) is None:
                # the serde writer is a plain walk over members and their owned edges: all of its adaptors are rewritten
                nb = normalize(self.F, b, only_interesting=(b.get('name') != 'graph_serde_decompose'))
                if nb is not None:
                    self.F.bodies[q] = nb
        # `ITER.filter(closure)` in a kernel candidate is rewritten into the equivalent loop-with-if form first
        self.F.desugared = {}
        from .normalize import forward_result_var
        for q, b in list(self.F.bodies.items()):
            if b['kind'] != 'Closure' and _k.kernel_params(self.F, b) is not None:
                fb = forward_result_var(self.F, b)
                if fb is not None:
                    fb['_facts'] = self.F
                    self.F.bodies[q] = b = fb
                nb = normalize(self.F, b)
                if nb is not None:
                    self.F.bodies[q] = nb
                    self.F.desugared[q] = nb['desugared_filters']
        absorbed, new = absorb_kernel_helpers(
            self.F, lambda b: _k.kernel_params(self.F, b) is not None or
            (b.get('impl_self_q', '').endswith('::node::Node') and not b.get('impl_trait') and b.get('name') in ('connect', 'try_connect', 'disconnect', 'isolate')) or
            (b.get('impl_trait') in ('serde::de::Visitor', 'serde::Deserialize')) or
            # the callback dispatcher (Method::exec): private per-kind helpers it calls back to back are part of it
            ((b.get('impl_self_q') or '').endswith('::node::algo::method::Method') and not b.get('impl_trait')) or
            # node / path iterators and every inherent method of Node: a private constructor / accessor helper shared by them
            # (`fn edge_to(&self, entry) -> Edge`) is part of each of its callers
            (b.get('impl_trait') == 'std::iter::Iterator' and b.get('name') == 'next') or
            (b.get('impl_self_q', '').endswith('::node::Node') and not b.get('impl_trait')) or
            # public methods of the search builders (entry points): their private non-kernel helpers are part of them
            ('::node::algo::' in (b.get('impl_self_q') or '') and (b.get('impl_self_q') or '').split('::')[-1] in ('Bfs', 'Dfs', 'Pfs', 'Order') and not b.get('impl_trait') and
             (self.F.fns.get(b['q'], {}).get('vis') == 'Public' or self.F.fns.get(b['q'], {}).get('reach'))),
            is_kernel=lambda b: _k.kernel_params(self.F, b) is not None)
        self.F.absorbed = absorbed
        self.F.bodies.update(new)
        self.tier = tier
        self.repo = repo
        self.work = work
        self._G = None
        self._K = None
        self.cache = {}

    def G(self):
        if self._G is None:
            self._G = GuardAnalysis(self.F)
        return self._G

    def kernels(self):
        if self._K is None:
            self._K = _k.discover(self.F)
        return self._K
