"""Analysis context shared by rule modules (lazy analyses)."""
from .core import Facts
from .guards import GuardAnalysis
from . import kernels as _k


class Ctx:
    def __init__(self, facts_path, tier='quick', repo='/repo', work=None):
        self.F = Facts(facts_path)
        self.F.summaries()
        # helpers extracted from traversal kernels are spliced back into their callers (see inline.py)
        from .inline import absorb_kernel_helpers
        from .normalize import normalize
        # `ITER.filter(closure)` in a kernel candidate is rewritten into the equivalent loop-with-if form first
        self.F.desugared = {}
        for q, b in list(self.F.bodies.items()):
            if b['kind'] != 'Closure' and _k.kernel_params(self.F, b) is not None:
                nb = normalize(self.F, b)
                if nb is not None:
                    self.F.bodies[q] = nb
                    self.F.desugared[q] = nb['desugared_filters']
        absorbed, new = absorb_kernel_helpers(
            self.F, lambda b: _k.kernel_params(self.F, b) is not None or
            (b.get('impl_self_q', '').endswith('::node::Node') and not b.get('impl_trait') and b.get('name') in ('connect', 'try_connect', 'disconnect', 'isolate')) or
            (b.get('impl_trait') in ('serde::de::Visitor', 'serde::Deserialize')))
        self.F.absorbed = absorbed
        self.F.bodies.update(new)
        self.tier = tier
        self.repo = repo
        self.work = work
        self._G = None
        self._K = None
        self.cache = {}

    def G(self):
        if self._G is None:
            self._G = GuardAnalysis(self.F)
        return self._G

    def kernels(self):
        if self._K is None:
            self._K = _k.discover(self.F)
        return self._K
