"""Compile-time witnesses: small crates compiled with the nightly rustc against the rmeta of the
*current* /repo tree (produced by the same cargo +nightly check that fed the fact extractor).

A negative witness must fail with the expected error code on the expected line and has a
positive twin differing only in the offending bound/line, which must compile.
"""
import os, json, glob, subprocess, shutil, tempfile, time
from concurrent.futures import ThreadPoolExecutor

HERE = os.path.dirname(os.path.abspath(__file__))
ENGINE = os.path.dirname(HERE)
VERIF = os.path.dirname(ENGINE)


def target_dir():
    work = os.environ.get('GDSL_WORK', os.path.join(VERIF, '.work'))
    return os.environ.get('GDSL_TARGET', os.path.join(work, 'target'))


def find_rmeta(newer_than=None):
    deps = os.path.join(target_dir(), 'debug', 'deps')
    c = sorted(glob.glob(os.path.join(deps, 'libgdsl-*.rmeta')), key=os.path.getmtime)
    if not c:
        return None, deps
    return c[-1], deps


_SYSROOT = None


def sysroot():
    global _SYSROOT
    if _SYSROOT is None:
        _SYSROOT = subprocess.run(['rustc', '+nightly', '--print', 'sysroot'], stdout=subprocess.PIPE, text=True).stdout.strip()
    return _SYSROOT


def compile_one(src_path, rmeta, deps, outdir, driver_facts=None, crate_name=None):
    """returns (ok, [diagnostics {code, line, message, level}])"""
    name = crate_name or os.path.splitext(os.path.basename(src_path))[0]
    env = dict(os.environ)
    if driver_facts:
        drv = os.path.join(ENGINE, 'driver', 'target', 'release', 'gdsl-facts')
        cmd = [drv, 'rustc']
        env['LD_LIBRARY_PATH'] = os.path.join(sysroot(), 'lib')
        env['GDSL_FACTS_OUT'] = driver_facts
        env['GDSL_FACTS_CRATES'] = name
    else:
        cmd = [os.path.join(sysroot(), 'bin', 'rustc')]
    cmd += ['--edition', '2021', '--crate-type', 'lib', '--crate-name', name, '--emit=metadata', '--out-dir', outdir,
            '-L', 'dependency=' + deps, '--extern', 'gdsl=' + rmeta, '--error-format=json', '-Zmir-opt-level=0', '-Awarnings', '--cap-lints', 'allow', src_path]
    r = subprocess.run(cmd, stdout=subprocess.PIPE, stderr=subprocess.PIPE, text=True, env=env)
    diags = []
    for line in r.stderr.splitlines():
        line = line.strip()
        if not line.startswith('{'):
            continue
        try:
            d = json.loads(line)
        except ValueError:
            continue
        if d.get('level') not in ('error',):
            continue
        code = (d.get('code') or {}).get('code')
        if code is None and d.get('message', '').startswith('aborting due to'):
            continue
        ln = None
        for sp in d.get('spans', []):
            if sp.get('is_primary'):
                ln = sp.get('line_start')
        diags.append({'code': code, 'line': ln, 'message': d.get('message', '')[:200]})
    return r.returncode == 0, diags


def run_many(jobs, par=16, rmeta=None):
    """jobs: list of dict(name, src, facts=None).  Returns {name: (ok, diags)}"""
    deps = os.path.join(target_dir(), 'debug', 'deps')
    if rmeta is None or not os.path.exists(rmeta):
        rmeta, deps = find_rmeta()
    if rmeta is None:
        raise RuntimeError('no libgdsl rmeta in ' + deps)
    work = os.environ.get('GDSL_WORK', os.path.join(VERIF, '.work'))
    tmp = tempfile.mkdtemp(prefix='wit-', dir=work)
    res = {}
    try:
        def go(j):
            p = os.path.join(tmp, j['name'] + '.rs')
            with open(p, 'w') as f:
                f.write(j['src'])
            od = os.path.join(tmp, 'o-' + j['name'])
            os.makedirs(od, exist_ok=True)
            return j['name'], compile_one(p, rmeta, deps, od, driver_facts=j.get('facts'), crate_name=j['name'])
        with ThreadPoolExecutor(max_workers=par) as ex:
            for name, r in ex.map(go, jobs):
                res[name] = r
    finally:
        if not os.environ.get('GDSL_KEEP_WIT'):
            shutil.rmtree(tmp, ignore_errors=True)
    return res, rmeta
