"""Property -> obligations registry.  Floors are instance counts confirmed by hand on the pinned tree."""
import json, os
from .core import FLAVOURS, DIRECTED, UNDIRECTED, SYNC, PLAIN
from . import rules_kernel as rk, dispatch as dp

ALLF = ('Bfs', 'Dfs', 'Pfs', 'Order')
HERE = os.path.dirname(os.path.abspath(__file__))


def _r(name, fn, *args, **kw):
    return (name, lambda ctx: fn(ctx, *args, **kw))


def kernel_pack(fams, flavours, bt=True):
    """the rule families every search property shares, restricted to the kernel families / flavours it is about"""
    pack = [
        _r('ROLES', rk.roles, fams, flavours),
        _r('DISC', rk.disc, fams, flavours),
        _r('EXH', rk.exh, fams, flavours),
        _r('EXEC1', rk.exec1, fams, flavours),
        _r('FRONT', rk.frontier, fams, flavours),
        _r('TR0', rk.tr0, fams, flavours),
        _r('INIT', dp.init, flavours, fams),
    ]
    return pack


PROPS = {}


def floors_for(pid):
    p = os.path.join(HERE, 'floors.json')
    if not os.path.exists(p):
        return {}
    return json.load(open(p)).get(pid, {})


PROPS['C04'] = dict(
    rules=kernel_pack(('Bfs',), FLAVOURS) + [_r('RESMAP', dp.result_map, FLAVOURS, ('Bfs',)), _r('TR1', dp.tr1, DIRECTED, ('Bfs',)), _r('METHOD', rk.method, FLAVOURS)],
    explanation='Breadth-first kernels (12) and their entry points: FIFO frontier (BFS1), discovery discipline (DISC i-vii), exhaustive expansion (EXH), '
                'callback-first (EXEC1), orientation (TR0/TR1), seeding (INIT), result mapping (RESMAP), back-tracking (BT) decided on MIR by dominance and provenance.',
    decides='the structural premises of the textbook BFS argument on every path of every kernel and entry point',
    does_not_decide='the textbook step from (FIFO + mark-on-discovery + exhaustive expansion + back-tracking join) to "shortest path iff reachable"; VecDeque/HashSet semantics',
    assumptions=['std VecDeque/HashSet/Vec behave as documented', 'payload trait impls (K: Eq+Hash, E: Clone) are pure'],
)
NOT_APPLICABLE = {}
