"""Property -> obligations registry.  Floors are instance counts confirmed by hand on the pinned tree."""
import json, os
from .core import FLAVOURS, DIRECTED, UNDIRECTED, SYNC, PLAIN
from . import rules_kernel as rk, dispatch as dp, rules_guard as rg, rules_edge as re_, rules_bt as rb, rules_misc as rm, rules_c16 as r16, rules_own as ro, rules_container as rc, rules_serde as rs, rules_scc as rscc, rules_sib as rsib, rules_mac as rmac

ALLF = ('Bfs', 'Dfs', 'Pfs', 'Order')
BT5 = ('BT', 'BT-wrap', 'BT-seed', 'BT-scan', 'BT-join', 'BT-rev')   # BT-disjoint (closing edge not joined to itself) matters to cycle searches only: C09
DISC6 = ('DISC', 'DISC-i', 'DISC-ii', 'DISC-iii', 'DISC-iv', 'DISC-v', 'DISC-vi')   # DISC-vii (live iteration) is C20's clause
HERE = os.path.dirname(os.path.abspath(__file__))


def _r(name, fn, *args, only=None, **kw):
    if only:
        return (name, lambda ctx: [o for o in fn(ctx, *args, **kw) if o['rule'] in only])
    return (name, lambda ctx: fn(ctx, *args, **kw))


def kernel_pack(fams, flavours, which=None):
    """the rule families every search property shares, restricted to the kernel families / flavours it is about"""
    pack = [
        _r('ROLES', rk.roles, fams, flavours),
        _r('DISC', rk.disc, fams, flavours, only=DISC6),
        _r('EXH', rk.exh, fams, flavours),
        _r('EXEC1', rk.exec1, fams, flavours, only=('EXEC1',)),
        _r('FRONT', rk.frontier, fams, flavours),
        _r('TR0', rk.tr0, fams, flavours),
        _r('INIT', dp.init, flavours, fams, which),
        _r('ENTRY-PASS', dp.entry_pass, flavours, fams, which),
        _r('CONF', dp.conf_ro, flavours, fams, which),
        _r('SET', dp.set_rules, flavours, fams),
        _r('ENTRY-ALL', dp.entry_all, flavours, fams),
        _r('FRAME', re_.frame, flavours, r'(^|<)node::algo::(%s)::' % '|'.join(f.lower() for f in fams), 'a search / ordering (kernels, entry points, builders)'),
    ]
    return pack


PROPS = {}


def floors_for(pid):
    p = os.path.join(HERE, 'floors.json')
    if not os.path.exists(p):
        return {}
    return json.load(open(p)).get(pid, {})



STD = ['std Vec/VecDeque/BinaryHeap/HashSet/HashMap behave as documented', 'payload trait impls on K/N/E (Eq, Hash, Clone, Ord, Display) are pure and do not call back into the graph']

PROPS['C01'] = dict(
    rules=[_r('P1', re_.p1_connect, DIRECTED), _r('P2', re_.p2_disconnect_directed, DIRECTED), _r('P3', re_.p3_isolate, DIRECTED),
           _r('RM1', re_.rm1_first_match, DIRECTED), _r('SYM', re_.sym, DIRECTED), _r('ENC', re_.enc, DIRECTED), _r('OBS', re_.obs, DIRECTED), _r('OBS-Q', re_.obs_q, DIRECTED),
           _r('IT2', rg.it2, DIRECTED), _r('ORIENT', re_.orient, DIRECTED), _r('ADJ-PRIM', re_.adj_prim, DIRECTED), _r('T1', re_.t1_try_connect, DIRECTED), _r('G3', rg.g3, DIRECTED), _r('LOOP-SRC', re_.loop_src, DIRECTED, r'^node::Node::isolate$', 'isolate')],
    explanation='Induction premises for the mirror invariant of the directed flavours: the invariant holds for Adjacent::new (two empty Vecs, ENC-new), is preserved by each of the '
                'three mutators (P1 connect pushes the pair, P2 disconnect removes the pair keyed by each other, P3 isolate removes every mirror entry then clears), removals are '
                'first-match forward scans on both sides (RM1, SYM), nothing else writes the lists (ENC a-d), and every observer reads the list its name says (OBS, IT2/ORIENT). No mutator re-acquires a node cell it still holds (G3, every pair of nodes assumed to alias): a panic or self-deadlock between the two halves of one operation would leave exactly one half applied.',
    decides='effect sets, owners, keys and list roles of connect/disconnect/isolate on every path; frame (who may touch the lists); observer footprints',
    does_not_decide='Vec::push/remove semantics and the induction step itself (argued in DESIGN.md); behaviour once a neighbour node has been dropped (excluded by "live nodes")',
    assumptions=STD,
)
PROPS['C02'] = dict(
    rules=[_r('P1', re_.p1_connect, UNDIRECTED), _r('P2u', re_.p2_disconnect_undirected, UNDIRECTED), _r('P3', re_.p3_isolate, UNDIRECTED),
           _r('RM1', re_.rm1_first_match, UNDIRECTED), _r('SYM', re_.sym, UNDIRECTED), _r('ENC', re_.enc, UNDIRECTED), _r('OBS', re_.obs, UNDIRECTED), _r('OBS-Q', re_.obs_q, UNDIRECTED),
           _r('GET-ADJ', re_.get_adj, UNDIRECTED), _r('IT2', rg.it2, UNDIRECTED), _r('ORIENT', re_.orient, UNDIRECTED), _r('ADJ-PRIM', re_.adj_prim, UNDIRECTED), _r('T1', re_.t1_try_connect, UNDIRECTED), _r('G3', rg.g3, UNDIRECTED), _r('LOOP-SRC', re_.loop_src, UNDIRECTED, r'^node::Node::isolate$', 'isolate')],
    explanation='Same scheme for the undirected flavours: every edge is two half-edges (owner OUT list, partner IN list); connect pushes both halves, disconnect removes one half at '
                'the caller and the complementary half at the peer (P2u), isolate removes the partner half at every neighbour (P3), the adjacency view is OUT ++ IN with the exact '
                'index arithmetic (GET-ADJ), degree adds both lengths once (OBS). No conflicting re-acquisition between the halves of one operation (G3; a self-loop makes the peer the node itself).',
    decides='effect sets / pairing of half-edges on every path; frame; observer footprints; index arithmetic of the concatenated view',
    does_not_decide='Vec semantics; the induction step (argued in DESIGN.md)',
    assumptions=STD,
)
PROPS['C03'] = dict(
    rules=[_r('P1', re_.p1_connect, FLAVOURS), _r('P2', re_.p2_disconnect_directed, DIRECTED), _r('P2u', re_.p2_disconnect_undirected, UNDIRECTED), _r('P3', re_.p3_isolate, FLAVOURS),
           _r('T1', re_.t1_try_connect, FLAVOURS), _r('T2', re_.t2_disconnect_result, FLAVOURS), _r('RM1', re_.rm1_first_match, FLAVOURS),
           _r('ENC', re_.enc, FLAVOURS), _r('G3', rg.g3, FLAVOURS), _r('GET-ADJ', re_.get_adj, UNDIRECTED), _r('ADJ-PRIM', re_.adj_prim, FLAVOURS), _r('OBS', re_.obs, FLAVOURS), _r('OBS-Q', re_.obs_q, FLAVOURS), _r('LOOP-SRC', re_.loop_src, FLAVOURS, r'^node::Node::isolate$', 'isolate')],
    explanation='Multigraph contract of the four edge operations on all four flavours: exactly-one-edge effects (P1/P2/P3), try_connect guarded by the existence query with the right '
                'footprint (T1), disconnect result/error set (T2), order-preserving list operations only (ENC-b: push/remove/clear; RM1 first match), one allocation per node so any '
                'handle is the same node (ENC-d), and no conflicting re-acquisition of a node cell anywhere (G3: no RefCell double borrow panic / RwLock self-deadlock, with every pair of '
                'nodes assumed to alias, so self-loops are covered). The boolean observers are evaluated over the atoms EMPTY(list) / FOUND(list, key) and must have exactly the truth table their name promises (OBS-Q); try_connect\'s branch is decided by the existence query alone (T1, all join alternatives); undirected isolate removes the IN half first so that a self-loop cannot shift the list under the live iterator (P3).',
    decides='effects, guards, error sets and guard lifetimes on every MIR path',
    does_not_decide='panics from upgrade().unwrap() on a dropped peer (excluded by "live nodes"); the two unwraps in isolate (unreachable while C01/C02 hold)',
    assumptions=STD,
)
PROPS['C20'] = dict(
    rules=[_r('IT1', rg.it1, FLAVOURS), _r('IT2', rg.it2, FLAVOURS), _r('IT3', rg.it3, FLAVOURS), _r('G2', rg.g2, FLAVOURS), _r('G3', rg.g3, FLAVOURS),
           _r('ROLES', rk.roles, ALLF, FLAVOURS), _r('TERM', rk.term, ALLF, FLAVOURS), _r('DISC', rk.disc, ALLF, FLAVOURS, only=('DISC-vii',)),
           _r('ADJ-PRIM', re_.adj_prim, FLAVOURS), _r('GET-ADJ', re_.get_adj, UNDIRECTED), _r('LIVE-EDGE', rg.fresh, FLAVOURS)],
    explanation='A guard-lifetime statement: no iterator/builder type stores a guard (IT1); each node-iterator step takes one shared guard, reads the live entry at its position and '
                'releases (IT2); no guard is held where a user callback runs or where an iterator is advanced, in all 48 kernels, isolate, scc, DOT and serde writers (G2); no conflicting '
                're-acquisition anywhere (G3). Termination clause: nodes enter a frontier only when newly marked (TERM); edges are walked live from the node iterator, not from a snapshot (DISC-vii). The positional read primitives the iterators step with are `list.get(i)` -- None, not a panic, when the cursor is beyond a list that shrank (ADJ-PRIM, GET-ADJ). A callback is handed the edge just read from the live list: no recursive descent or nested traversal runs between the iterator step and the callback call (LIVE-EDGE).',
    decides='which guards are live at every call site of every function (forward dataflow on MIR with function summaries)',
    does_not_decide='re-entrancy through payload trait impls that run under a guard in next()/find_* (E::clone, K::eq), assumed not to call back into the graph',
    assumptions=STD,
)
PROPS['C04'] = dict(
    rules=kernel_pack(('Bfs',), FLAVOURS, 'path') + [_r('RESMAP', dp.result_map, FLAVOURS, ('Bfs',), 'path'), _r('TR1', dp.tr1, DIRECTED, ('Bfs',), 'path'), _r('METHOD', rk.method, FLAVOURS), _r('BT', rb.bt, FLAVOURS, only=BT5), _r('PATH', rb.path_api, FLAVOURS), _r('PATH-hint', rb.path_hint, FLAVOURS)],
    explanation='Breadth-first kernels (12) and their entry points: FIFO frontier (BFS1), discovery discipline (DISC i-vii), exhaustive expansion (EXH), '
                'callback-first (EXEC1), orientation (TR0/TR1), seeding (INIT), result mapping (RESMAP), back-tracking (BT) decided on MIR by dominance and provenance. Entry points only read the search configuration (CONF) and answer through a kernel run or a shortcut that is sound for every arm (ENTRY-PASS). No search, ordering or SCC function reaches an adjacency-list mutator through the call graph (FRAME): a search computes on the graph the caller holds.',
    decides='the structural premises of the textbook BFS argument on every path of every kernel and entry point',
    does_not_decide='the textbook step from (FIFO + mark-on-discovery + exhaustive expansion + back-tracking join) to "shortest path iff reachable"; VecDeque/HashSet semantics',
    assumptions=['std VecDeque/HashSet/Vec behave as documented', 'payload trait impls (K: Eq+Hash, E: Clone) are pure'],
)

PROPS['C05'] = dict(
    rules=kernel_pack(('Dfs',), FLAVOURS, 'path') + [_r('RESMAP', dp.result_map, FLAVOURS, ('Dfs',), 'path'), _r('TR1', dp.tr1, DIRECTED, ('Dfs',), 'path'), _r('METHOD', rk.method, FLAVOURS), _r('BT', rb.bt, FLAVOURS, only=BT5), _r('PATH', rb.path_api, FLAVOURS), _r('PATH-hint', rb.path_hint, FLAVOURS)],
    explanation='Depth-first kernels (12 recursive) and entries: LIFO frontier with push(FAR) immediately followed by the recursive call (DFS1), discovery discipline (DISC), no early exit and '
                'found-propagation (EXH), callback-first (EXEC1), orientation, seeding, result mapping and back-tracking (BT). Entry points only read the search configuration (CONF) and answer through a kernel run or a sound shortcut (ENTRY-PASS); FOUND behind a descent is confined to its success outcome (EXH). No search, ordering or SCC function reaches an adjacency-list mutator through the call graph (FRAME): a search computes on the graph the caller holds.',
    decides='the structural premises of "DFS finds a simple path iff reachable" on every path of every kernel',
    does_not_decide='the textbook step from those premises to the graph-theoretic statement',
    assumptions=STD,
)
PROPS['C06'] = dict(
    rules=kernel_pack(('Pfs',), FLAVOURS, 'path') + [_r('PFS1', dp.pfs1, FLAVOURS, 'path'), _r('RESMAP', dp.result_map, FLAVOURS, ('Pfs',), 'path'), _r('TR1', dp.tr1, DIRECTED, ('Pfs',), 'path'),
                                           _r('METHOD', rk.method, FLAVOURS), _r('BT', rb.bt, FLAVOURS, only=BT5), _r('PATH', rb.path_api, FLAVOURS), _r('PATH-hint', rb.path_hint, FLAVOURS), _r('ORD-NODE', rm.ord_node, FLAVOURS), _r('PFS-SEARCH', rm.pfs_search, FLAVOURS), _r('OPT', dp.opt_rules, FLAVOURS, 'priority')],
    explanation='Priority-first kernels (12) and entries: BinaryHeap pop/push with Reverse exactly on the Min arms (PFS-FRONT, PFS1), discovery discipline incl. closing edge recorded before '
                'FOUND (DISC iv/v), no early exit, node ordering by value identically through Ord and PartialOrd and equality by key (ORD-NODE), search = last node of search_path. min()/max() store the priority their name says (OPT); kernels and entries only read the configuration (CONF). No search, ordering or SCC function reaches an adjacency-list mutator through the call graph (FRAME): a search computes on the graph the caller holds.',
    decides='heap discipline, Min/Max dispatch, comparison impls, discovery discipline',
    does_not_decide='BinaryHeap pop-minimum contract (trusted std); ties',
    assumptions=STD,
)
PROPS['C07'] = dict(
    rules=[_r('ROLES', rk.roles, ALLF, FLAVOURS), _r('EXEC1', rk.exec1, ALLF, FLAVOURS), _r('DISC', rk.disc, ALLF, FLAVOURS, only=DISC6), _r('EXH', rk.exh, ALLF, FLAVOURS),
           _r('TR0', rk.tr0, ALLF, FLAVOURS), _r('INIT', dp.init, FLAVOURS), _r('ENTRY-PASS', dp.entry_pass, FLAVOURS), _r('CONF', dp.conf_ro, FLAVOURS), _r('SET', dp.set_rules, FLAVOURS), _r('ENTRY-ALL', dp.entry_all, FLAVOURS), _r('METHOD', rk.method, FLAVOURS), _r('REV', rm.rev, FLAVOURS), _r('IT2', rg.it2, FLAVOURS), _r('ORIENT', re_.orient, FLAVOURS),
           _r('FRAME', re_.frame, FLAVOURS, r'(^|<)node::algo::', 'a traversal (kernels, entry points, callbacks dispatch, paths)')],
    explanation='All 48 kernels: the callback runs first and exactly once per yielded edge (EXEC1), a rejected edge neither marks, records nor extends reachability (DISC i), the edge handed '
                'over is the live iterator item or its value-preserving reverse (DISC vi/vii, REV, IT2), every reachable node is expanded once and completely (EXH, DISC ii/iii, INIT), '
                'and the dispatcher maps Empty/ForEach/Filter correctly (METHOD). The ForEach/Filter callback call is on every path of its dispatcher arm (METHOD); entries answer through a kernel run (ENTRY-PASS). No search, ordering or SCC function reaches an adjacency-list mutator through the call graph (FRAME): a search computes on the graph the caller holds.',
    decides='callback position/multiplicity and filter semantics on every path',
    does_not_decide='the step to "every reachable edge exactly once" (textbook, from the premises)',
    assumptions=STD,
)
PROPS['C08'] = dict(
    rules=[_r('ROLES', rk.roles, ALLF, DIRECTED), _r('TR0', rk.tr0, ALLF, DIRECTED), _r('TR1', dp.tr1, DIRECTED), _r('TR2', dp.tr2, DIRECTED), _r('TR-PAIR', dp.tr_pair, DIRECTED), _r('ENTRY-PASS', dp.entry_pass, DIRECTED), _r('CONF', dp.conf_ro, DIRECTED), _r('REV', rm.rev, DIRECTED),
           _r('ORIENT', re_.orient, DIRECTED), _r('IT2', rg.it2, DIRECTED), _r('IT1', rg.it1, DIRECTED), _r('DISC', rk.disc, ALLF, DIRECTED, only=DISC6),
           _r('P1', re_.p1_connect, DIRECTED), _r('P2', re_.p2_disconnect_directed, DIRECTED), _r('P3', re_.p3_isolate, DIRECTED), _r('RM1', re_.rm1_first_match, DIRECTED), _r('ADJ-PRIM', re_.adj_prim, DIRECTED)],
    explanation='Directed flavours: every kernel has a well-formed orientation signature (OUT = iter_out + item, IN = iter_in + reversed item; TR0), every entry point sends the Outbound arm '
                'to an OUT kernel and the Inbound arm to an IN kernel (TR1, 28 arms per flavour), constructors default to Outbound and only transpose() stores Inbound (TR2), reverse '
                'swaps endpoints and keeps the value (REV), iter_in reads the IN list and presents (peer, self) (ORIENT) one live entry per step under a guard released before it returns, like iter_out (IT1/IT2); the IN lists mirror the OUT lists entry for entry (P1/P2/P3/RM1 of C01), which is what makes a stored edge u->v with value e come back as Edge(v, u, e). The kernel reached under Inbound follows the same discipline as the one under Outbound (TR-PAIR: idiom-invariant facts on the outcome edges); the transposition flag is never written outside transpose() (CONF, TR2).',
    decides='dispatch tables and orientation of every kernel',
    does_not_decide='nothing beyond the per-kernel search properties C04-C10, which are checked for IN kernels exactly as for OUT kernels',
    assumptions=STD,
)
PROPS['C09'] = dict(
    rules=kernel_pack(('Bfs', 'Dfs', 'Pfs'), FLAVOURS, 'cycle') + [_r('RESMAP', dp.result_map, FLAVOURS, ('Bfs', 'Dfs', 'Pfs'), 'cycle'), _r('TR1', dp.tr1, DIRECTED, ('Bfs', 'Dfs', 'Pfs'), 'cycle'), _r('PFS1', dp.pfs1, FLAVOURS, 'cycle'), _r('BT', rb.bt, FLAVOURS), _r('PATH', rb.path_api, FLAVOURS), _r('PATH-hint', rb.path_hint, FLAVOURS), _r('METHOD', rk.method, FLAVOURS)],
    explanation='12 cycle entries: target := key(root), root queued and not marked so that it can be re-discovered (CYC-INIT), then the same kernels (DISC/EXH/FRONT), transposed arms (TR1), '
                'and back-tracking incl. BT-disjoint (the closing edge is not joined to itself). No search, ordering or SCC function reaches an adjacency-list mutator through the call graph (FRAME): a search computes on the graph the caller holds. Overridden provided methods of the Path iterators cannot underflow for any cursor value next() produces (PATH-hint).',
    decides='seeding of cycle searches, kernel discipline, back-tracking join and range',
    does_not_decide='the textbook step to "a cycle through the root iff one exists"',
    assumptions=STD,
)
PROPS['C10'] = dict(
    rules=kernel_pack(('Order',), FLAVOURS) + [_r('ORD1', rk.ord1, FLAVOURS), _r('ORD2', rm.ord2, FLAVOURS), _r('ORD2d', rm.ord2_derived, FLAVOURS), _r('TR1', dp.tr1, DIRECTED, ('Order',)), _r('TR2', dp.tr2, DIRECTED), _r('OPT', dp.opt_rules, FLAVOURS, 'ordering'), _r('METHOD', rk.method, FLAVOURS)],
    explanation='12 ordering kernels and 8 entries: emission before the recursive call in kernels selected by the Pre arm and after it in kernels selected by the Post arm (ORD1), assembly '
                'root-first / root-last with node list = targets of the recorded edges (ORD2), one entering edge per reachable non-root node (DISC), LIFO descent (DFS1), no early exit (EXH). preorder()/postorder() build an Order with the ordering their name says (OPT). No search, ordering or SCC function reaches an adjacency-list mutator through the call graph (FRAME): a search computes on the graph the caller holds.',
    decides='emission position, assembly and discovery discipline of the ordering kernels',
    does_not_decide='that ORD1+DFS1 yield a DFS discovery / finishing order (textbook)',
    assumptions=STD,
)

PROPS['C17'] = dict(
    rules=[_r('LK1', rg.g3, SYNC, strict=True), _r('LK2', rg.g2, SYNC, rule='LK2'), _r('LK3', rg.lk3, SYNC), _r('LK4', rg.lk4, SYNC), _r('LK5', rg.lk5, SYNC), _r('LK6', rg.lk6, SYNC), _r('LK7', rg.lk7, SYNC), _r('LK8', rg.lk8, SYNC), _r('LK-TRY', rg.lk_try, SYNC), _r('IT2', rg.it2, SYNC), _r('IT1', rg.it1, SYNC), _r('IT3', rg.it3, SYNC),
           _r('P2', re_.p2_disconnect_directed, ('sync_digraph',)), _r('P2u', re_.p2_disconnect_undirected, ('sync_ungraph',)), _r('P1', re_.p1_connect, SYNC), _r('P3', re_.p3_isolate, SYNC)],
    explanation='Only the lock-discipline clauses are decidable statically: no node lock is acquired while another node-lock guard is held, directly or through any callee (LK1: with '
                'per-node locks and no lock order this is necessary against ABBA and re-entrant read-behind-writer deadlocks, and with LK2 sufficient for deadlock freedom among gdsl\'s '
                'own locks); no user callback or iterator step runs under a lock (LK2); no panic-capable call under a write guard (LK3: poisoning); every public mutator is one critical '
                'section, otherwise it is reported with the multiset of its sections (LK4: a necessary condition of serialisability). Iterators lock once per step (IT1/IT2). No index computed under one acquisition is used under another (LK5); no owned copy of a weak peer handle leaves the adjacency module, so every upgrade() happens under the guard its entry was read under (LK6); a lookup decides whether an operation mutates, never which of two mutations it performs (LK7: check-then-act across critical sections); no try_read/try_write/try_lock whose failure becomes a data outcome (LK-TRY). The cursor of a node iterator may exceed the list another thread shortened between two steps, so an overridden provided method may not compute with it unguarded (IT3). The effect structure of each mutator (P1/P2/P2u/P3: the half at the peer is touched only on the success outcome of the half at the caller) is what stops the loser of a race from removing the winner\'s mirror entry; sequentially the re-validation is redundant, concurrently it is not. Termination: no loop repeats an operation under a node lock until it succeeds (LK8: a retry loop waits for another thread and has no bound of its own).',
    decides='hold-and-wait freedom, callback-under-lock freedom, poisoning sites, number and owners of critical sections per operation',
    does_not_decide='the serialisation order of schedules (linearizability), starvation, std RwLock itself; LK4 reports non-atomic operations but cannot prove atomic ones serialisable',
    assumptions=STD + ['payload trait impls do not take gdsl locks'],
    level_text='Lock-discipline analysis (guard-liveness dataflow over MIR): decides the deadlock/poisoning/atomicity *necessary conditions* of the property, not linearizability; '
               'non-atomic compound operations are recorded as known findings (D15).',
)

PROPS['C16'] = dict(
    rules=[('W16', lambda ctx: r16.w16(ctx)), ('UNS', lambda ctx: r16.uns(ctx)), ('UNS-struct', lambda ctx: r16.uns_struct(ctx))],
    level='proof',
    explanation='Decided for all K, N, E by the trait solver on generic obligations: with K,N,E: Send+Sync the sync Node/Edge/Graph are Send and Sync (12 positive witnesses); with any '
                'one of the six bounds removed the obligation is rejected with E0277 on the assert line (72 negative witnesses, each with a compiling twin); the plain types are never '
                'Send/Sync (12); concrete Cell/Rc/MutexGuard/raw-pointer payloads in every position are rejected. UNS lists unsafe impls/blocks from HIR and requires Send+Sync on every '
                'parameter of each unsafe impl Send|Sync. UNS-struct: every unsafe impl Send/Sync asserts no more than the structural auto-trait derivation gives for the fields when K, N, E are Send + Sync.',
    decides='the Send/Sync obligations for every instantiation of K, N, E (universally quantified type-checking), on the metadata of the current tree',
    does_not_decide='soundness of std Arc/RwLock themselves; the "consequently no data race" clause follows from Rust\'s safety guarantee given no unsafe code (UNS)',
    assumptions=['rustc trait solver is sound for auto traits', 'no unsafe code beyond the listed unsafe impls (checked by UNS)'],
    technique='static analysis: compile-fail / compile-pass witnesses decided by rustc\'s trait solver against the current tree\'s metadata, plus HIR scan of unsafe items',
    level_text='proof: each obligation is a generic (for all K,N,E) trait obligation discharged or refuted by the compiler; negative witnesses are paired with compiling twins',
    trusted=['rustc trait solver / auto-trait rules'],
)

PROPS['C19'] = dict(
    rules=[_r('OWN1', ro.own1, FLAVOURS), _r('OWN2', ro.own2, FLAVOURS), ('OWN3', lambda ctx: ro.own3(ctx)), _r('OWN4', ro.own4, FLAVOURS),
           _r('ENC', re_.enc, FLAVOURS, only=('ENC-d', 'ENC-new')), _r('P1', re_.p1_connect, FLAVOURS), _r('IT2', rg.it2, FLAVOURS), _r('MAP', rc.map_rules, FLAVOURS, only=('MAP',))],
    explanation='A container is a handle holder too: a member leaves it only through remove(), and insert() never replaces one (MAP) -- otherwise a node is released while the program still holds the container it put it in. Type-level ownership graph: the adjacency lists own only weak peer references (OWN1: structured type walk; the only strong edge is Node -> allocation), every type a '
                'public signature hands out (Edge, Path, Graph, iterator items, lookups) holds strong Node handles and no public signature mentions a weak one (OWN2), no '
                'forget/ManuallyDrop/leak/raw-pointer escape hatch and no unsafe code (OWN3, zero-count scan with a positive-control fixture compiled on every run), connect stores '
                'downgrade(node), iterators and lookups return upgrade(..) of the stored peer, and a Node is only ever built by new/clone/upgrade (OWN4, ENC-d, IT2); the node allocation itself owns no strong handle beside the lists (OWN1). In safe Rust a value '
                'is dropped exactly once and never while owned, so leaks need a strong cycle or an escape hatch: both are excluded for library types whatever the graph shape.',
    decides='absence of strong reference cycles among library types and of leak/raw escape hatches; strength of every handle handed out',
    does_not_decide='cycles a user builds through the payload types N/E; Rc/Arc/Weak themselves',
    assumptions=['Rust ownership: safe code drops each value exactly once', 'std Rc/Arc/Weak are correct'],
)

PROPS['C18'] = dict(
    rules=[_r('MAP', rc.map_rules, FLAVOURS), _r('VIEW', rc.view_rules, FLAVOURS), _r('DOT', rc.dot_rules, FLAVOURS), _r('DOT-skel', rc.dot_skel, FLAVOURS), _r('LOOP-SRC', re_.loop_src, FLAVOURS, r'^Graph::(to_dot\w*|fmt_attr|write_attrs\w*)$', 'the DOT writer'), _r('OBS', re_.obs, FLAVOURS),
           _r('ENC', re_.enc, FLAVOURS, only=('ENC-d',))],
    explanation='Graph is one HashMap<K, Node> field; every container method is the expected delegation (contains/len/is_empty/get+clone/remove/iter/to_vec/Index), insert mutates only on the '
                '"key absent" branch with (clone(key(node)), clone(node)) and returns false/true accordingly, nothing else mutates or replaces the map (MAP); roots/leaves/orphans filter '
                'the members by exactly is_root/is_leaf/is_orphan, un-negated (VIEW, with the observers\' list footprints from OBS); the DOT exports write one node statement per member and '
                'one "u -> v" statement per edge of the member\'s iterator, arguments in that order, loops run to exhaustion, each attribute callback is called once per graph / member / '
                'edge with the right arguments and its text goes into the same statement (DOT); handles handed out are clones of the stored handle, i.e. the same allocation (ENC-d). DOT-skel: the literal text of each exporter, concatenated per loop nest in execution order, agrees between the flavours. No container function (trait impls such as Drop included) reaches an adjacency-list mutator (MAP-frame).',
    decides='delegation shape, branch placement and argument provenance of every container method and DOT writer',
    does_not_decide='HashMap semantics; the literal DOT syntax beyond the presence and order of the placeholders',
    assumptions=STD,
)

PROPS['C12'] = dict(
    rules=[_r('SER', rs.ser_rules, FLAVOURS), _r('P1', re_.p1_connect, FLAVOURS), _r('ENC-push', re_.enc_append, FLAVOURS), _r('ORIENT', re_.orient, FLAVOURS),
           _r('FRAME', re_.frame, FLAVOURS, r'as serde::Serialize>::serialize$', 'the writer (and every helper it calls)'),
           _r('DE', rs.de_rules, FLAVOURS, only=('DE3', 'DE4')),
           _r('LOOP-SRC', re_.loop_src, FLAVOURS, r'graph_serde|serde::Serialize>::serialize$|serde::de::Visitor>::visit_seq$|^node::Node::owned_edges$', 'the serde writer / reader')],
    explanation='Writer/reader agreement on all four flavours: the two serialize_element::<T> calls and the two next_element::<T> calls carry the same element types in the same order '
                'inside a 2-tuple (SER1); the writer loops over all members and, per member, over an edge iterator whose list footprint is exactly the OUT list, so each edge (stored as '
                'one OUT half) is written exactly once (SER2); the writer pushes (key(u), key(v), e) and the reader connects (get(t.0), get(t.1), t.2) (SER3); both sides use push and '
                'forward loops with no reordering call, and connect appends (P1, ENC-push), so each node\'s outgoing order survives (SER4); nodes are written (key, value) once per member and '
                'rebuilt with insert(Node::new(t.0, t.1)) before any edge is connected (SER5). The writer and everything it calls change no edge (FRAME). The reader builds the graph from the document elements themselves, walked by plain loops -- no filtering, folding or reordering of what was read (DE3/DE4).',
    decides='multiplicity, orientation, order and shape agreement of writer and reader',
    does_not_decide='serde / serde_json / serde_cbor themselves and the Serialize/Deserialize impls of K, N, E',
    assumptions=STD + ['serde data formats round-trip the element types'],
)
PROPS['C13'] = dict(
    rules=[_r('DE', rs.de_rules, FLAVOURS), _r('G3', rs.g3_reader, FLAVOURS), _r('MAP', rc.map_rules, FLAVOURS), _r('P1', re_.p1_connect, FLAVOURS),
           _r('LOOP-SRC', re_.loop_src, FLAVOURS, r'graph_serde|serde::de::Visitor>::visit_seq$', 'the serde reader')],
    explanation='Decoding errors of the element reads are propagated, never read as an absent list (DE6). On visit_seq and everything it calls in-crate: each connect is dominated by the success outcome of both endpoint lookups and a failed lookup returns Err(custom(..)) with no '
                'connect on the way (DE1); no unwrap/expect/panic/indexing/arithmetic assert in deserialize, visit_seq or their closures (DE2); the graph is built only through '
                'Graph::insert and Node::connect with arguments taken from document elements (DE3), so the mirror/symmetry invariants follow from C01/C02 (P1) and repeated keys are '
                'refused by insert (MAP); a missing element leaves the list empty and both lists are walked by plain for-loops (DE4); no conflicting re-borrow on the insert/connect '
                'sequence even when both endpoints are the same node (G3). Ok(..) is returned only after both document lists were walked to their end (DE5, must-pass-through).',
    decides='absence of panic sites and of unguarded connects in the reader, and that only the two invariant-preserving builders are used',
    does_not_decide='panics or hangs inside the format crates; allocation failure on huge documents',
    assumptions=STD + ['serde format crates do not panic on malformed input'],
)

PROPS['C11'] = dict(
    rules=[_r('SCC', rscc.scc_rules, DIRECTED)] + kernel_pack(('Order',), DIRECTED) + [_r('ORD1', rk.ord1, DIRECTED), _r('ORD2', rm.ord2, DIRECTED), _r('ORD2d', rm.ord2_derived, DIRECTED), _r('TR1', dp.tr1, DIRECTED, ('Order',)),
           _r('TR2', dp.tr2, DIRECTED), _r('OPT', dp.opt_rules, DIRECTED, 'ordering'), _r('METHOD', rk.method, DIRECTED), _r('MAP', rc.map_rules, DIRECTED, only=('MAP',)),
           _r('FRAME', re_.frame, DIRECTED, r'^Graph::scc', 'scc() and its helpers')],
    explanation='scc() as a Kosaraju composition schema: the first pass loops over all members and appends, for every unvisited one, the complete filtered postorder (not transposed, filter '
                'rejecting edges into visited nodes) to both the visited set and the ordering (SCC1); the second pass pops the ordering from the back, skips assigned nodes, and takes as '
                'component the result of a transposed, filtered *reachable-set* search (Order::search_nodes) from the popped node, marking every element assigned (SCC2: a path or cycle '
                'search in that position is a violation). The searches it composes are checked for the same flavours: true postorder (ORD1/ORD2), direction (TR0/TR1/TR2), filter '
                'semantics and exhaustive discovery (DISC/EXH/METHOD). No search, ordering or SCC function reaches an adjacency-list mutator through the call graph (FRAME): a search computes on the graph the caller holds.',
    decides='the composition schema and the properties of the composed searches',
    does_not_decide='Kosaraju\'s theorem; independence from hash order follows from it (any DFS forest works)',
    assumptions=STD,
)

PROPS['C14'] = dict(
    rules=[('MAC', lambda ctx: rmac.mac(ctx))],
    explanation='Generated probe crates invoke one macro arm each (4 macros x {empty, 4 signature forms} + the *_node!/*_connect! helpers; thorough: node counts 0-3 x edge-list shapes '
                'absent/empty/one/two/self-loop/repeated/forward/unlisted, ~440 probes) with distinct literal keys and values and a declared result type. They are compiled through the '
                'fact extractor against the current tree\'s metadata: MAC-type = the invocation type-checks at gdsl::F::Graph<K,N,E>; MAC-den = the expansion\'s MIR is, constant by '
                'constant, the denotation: for each listed node in order its edge tuples pushed in listed order, then insert(Node::new(key, value|())), then one forward loop over the '
                'collected edges whose connect(get(s), get(t), value|()) is guarded by membership of both keys with a panic naming the missing key; MAC-flav = only gdsl::F:: items.',
    decides='that each macro arm\'s template expands, for 0..3 repetitions and each optional group present/absent, to exactly the denoted construction sequence (macro_rules! is '
            'syntax-parametric, so conformance of the template on these shapes is the structural content of "for every invocation")',
    does_not_decide='key expressions with side effects (evaluated more than once by the macros); runtime behaviour of the calls themselves (C01-C03, C18)',
    assumptions=STD + ['macro_rules! substitution is parametric in the literal fragments'],
    technique='static analysis: generated macro probes compiled with a rustc_private driver; the expansion\'s MIR is matched against the denotation (no probe is executed)',
)
PROPS['C15'] = dict(
    rules=[('SIB', lambda ctx: rsib.sib(ctx)), ('FLAV', lambda ctx: rsib.flav(ctx)), ('MAC', lambda ctx: [o for o in rmac.mac(ctx, thorough=False) if o['rule'] in ('MAC-sib', 'MAC-flav', 'MAC-type')])],
    explanation='Sibling agreement over every function, closure and trait impl common to (digraph, sync_digraph) and (ungraph, sync_ungraph): equal control-dependence event bags '
                '(crate-local calls, collection operations, enum-variant and ADT aggregates, returned constants, arithmetic, each tagged with loop depth and the chain of branch '
                'predicates with polarity) after the renaming Rc<->Arc, RefCell<->RwLock, flavour prefix; guard acquisition, unwrap-as-assert, `?` plumbing, clones and formatting are not '
                'events (SIB); equal error sets and adjacency-list footprints of the node API (SIB-SEM); common trait impls have the same bounds (SIB-IMPL); every body references only its '
                'own flavour and never observes the identity (type_name / TypeId) of a flavour type (FLAV) and corresponding macro arms expand alike (MAC-sib). Every structural rule of the other properties also runs on the sync copies themselves.',
    decides='that the two copies are the same program up to the pointer/cell substitution and reordering inside one control region',
    does_not_decide='equivalence of arbitrary programs: a behaviour-preserving rewrite of only one copy that changes its event bag raises an alarm (the stated price of cross-checking '
                    'siblings); one-sided API (listed in the evidence) is not judged',
    assumptions=STD + ['Rc/Arc and RefCell/RwLock are observationally equivalent in single-threaded code'],
)
NOT_APPLICABLE = {}
