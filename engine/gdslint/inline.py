"""MIR-level inlining of private helpers that were extracted from traversal kernels.

A function is *absorbed* when it is private, not recursive, and every call to it comes from a kernel candidate
(a function with visited-set and frontier parameters) or from another absorbed function.  Absorbed callees are
spliced into their callers (locals renumbered, blocks appended, parameters assigned from the call operands, the
return value assigned to the call's destination), so that role extraction sees one body, as before the extraction.
Nothing else is inlined: kernels stay separate from their entry points, public API and Adjacent methods stay calls.
"""
import copy, json, re
from .core import calls_in


def _shift_place(pl, off, bmap=None):
    pl['l'] += off
    np = []
    for p in pl['p']:
        m = re.match(r'^\[_(\d+)\]$', p)
        if m:
            p = '[_%d]' % (int(m.group(1)) + off)
        np.append(p)
    pl['p'] = np


def _shift_operand(o, off):
    if o.get('k') in ('copy', 'move'):
        _shift_place(o['pl'], off)


def _shift_block(bb, off, boff):
    for s in bb['stmts']:
        if s['k'] == 'assign':
            _shift_place(s['dst'], off)
            rv = s['rv']
            if 'pl' in rv:
                _shift_place(rv['pl'], off)
            for o in rv.get('ops', []):
                _shift_operand(o, off)
        elif s['k'] in ('live', 'dead'):
            s['l'] += off
        elif s['k'] == 'setdiscr':
            _shift_place(s['dst'], off)
    t = bb['term']
    k = t['k']
    if k == 'call':
        for a in t['args']:
            _shift_operand(a, off)
        _shift_place(t['dst'], off)
        if t.get('target', -1) >= 0:
            t['target'] += boff
    elif k == 'drop':
        _shift_place(t['pl'], off)
        t['target'] += boff
    elif k == 'switch':
        _shift_operand(t['op'], off)
        t['targets'] = [[v, tg + boff] for v, tg in t['targets']]
        t['otherwise'] += boff
    elif k in ('goto',):
        t['target'] += boff
    elif k == 'assert':
        _shift_operand(t['op'], off)
        t['target'] += boff


def inline_call(caller, bi, callee):
    """splice `callee` into `caller` at the call terminating block bi (caller is modified in place)"""
    t = caller['blocks'][bi]['term']
    off = len(caller['locals'])
    boff = len(caller['blocks'])
    cb = copy.deepcopy({'locals': callee['locals'], 'blocks': callee['blocks']})
    caller['locals'] = caller['locals'] + cb['locals']
    for bb in cb['blocks']:
        _shift_block(bb, off, boff)
    # parameters := operands
    sp, ex = t['sp'], t.get('exp', '')
    pre = []
    for i, a in enumerate(t['args']):
        pre.append({'k': 'assign', 'dst': {'l': off + 1 + i, 'p': []}, 'rv': {'k': 'use', 'ops': [a]}, 'sp': sp, 'exp': ex})
    caller['blocks'][bi]['stmts'] = caller['blocks'][bi]['stmts'] + pre
    # returns: dst := _0'; goto continuation
    cont = t.get('target', -1)
    for bb in cb['blocks']:
        if bb['term']['k'] == 'return':
            bb['stmts'].append({'k': 'assign', 'dst': copy.deepcopy(t['dst']), 'rv': {'k': 'use', 'ops': [{'k': 'move', 'pl': {'l': off, 'p': []}}]}, 'sp': sp, 'exp': ex})
            if cont >= 0:
                bb['term'] = {'k': 'goto', 'target': cont, 'sp': sp, 'exp': ex}
            else:
                bb['term'] = {'k': 'unreachable', 'sp': sp, 'exp': ex}
    caller['blocks'][bi]['term'] = {'k': 'goto', 'target': boff, 'sp': sp, 'exp': ex}
    caller['blocks'] = caller['blocks'] + cb['blocks']
    # bookkeeping for the role extraction: where inlined regions start and which locals hold inlined return values
    caller.setdefault('inl_regions', []).append({'entry': boff, 'end': boff + len(cb['blocks']), 'ret': off, 'callee': callee['q'], 'site': bi})
    # debug names of the callee's locals
    for k, v in callee.get('dbg', {}).items():
        caller.setdefault('dbg', {})[str(int(k) + off)] = v


def absorb_kernel_helpers(F, is_kernel_candidate, max_depth=3, max_blocks=400):
    """returns (set of absorbed function q, dict caller q -> new body).  F.bodies is not modified."""
    bodies = F.bodies
    cands = {q for q, b in bodies.items() if b['kind'] != 'Closure' and is_kernel_candidate(b)}
    callers = {}
    for q, b in bodies.items():
        owner = re.sub(r'(::\{closure#\d+\})+$', '', q)
        for bi, t in calls_in(b, lambda t: t.get('local') and t.get('res') in bodies):
            callers.setdefault(t['res'], set()).add(owner)

    def private(q):
        f = F.fns.get(q)
        return f is not None and f.get('vis') != 'Public' and not f.get('reach')
    absorbed = set()
    changed = True
    while changed:
        changed = False
        for q, b in bodies.items():
            if q in absorbed or b['kind'] == 'Closure' or b['impl_trait'] or not private(q):
                continue
            cs = callers.get(q, set())
            if not cs or q in cs:
                continue   # never called, or recursive
            if all((c in cands and c != q) or c in absorbed for c in cs) and any(c in cands or c in absorbed for c in cs):
                # a candidate that is itself called from a non-candidate (an entry point) is a real kernel
                absorbed.add(q)
                changed = True
    if not absorbed:
        return absorbed, {}
    new = {}
    for q, b in bodies.items():
        if q in absorbed or b['kind'] == 'Closure':
            continue
        if not any(t.get('res') in absorbed for bi, t in calls_in(b, lambda t: t.get('local'))):
            continue
        nb = copy.deepcopy({k: v for k, v in b.items() if k != '_facts'})
        depth = 0
        while depth < max_depth:
            sites = [(bi, t) for bi, t in calls_in(nb, lambda t: t.get('local') and t.get('res') in absorbed)]
            if not sites or len(nb['blocks']) > max_blocks:
                break
            for bi, t in sites:
                inline_call(nb, bi, bodies[t['res']])
            depth += 1
        nb['_facts'] = F
        nb['inlined'] = sorted(absorbed & {t.get('res') for b2 in [b] for bi, t in calls_in(b2)})
        new[q] = nb
    return absorbed, new
