"""MIR-level inlining of private helpers that were extracted from traversal kernels.

A function is *absorbed* when it is private, not recursive, and every call to it comes from a kernel candidate
(a function with visited-set and frontier parameters) or from another absorbed function.  Absorbed callees are
spliced into their callers (locals renumbered, blocks appended, parameters assigned from the call operands, the
return value assigned to the call's destination), so that role extraction sees one body, as before the extraction.
Nothing else is inlined: kernels stay separate from their entry points, public API and Adjacent methods stay calls.
"""
import copy, json, re
from .core import calls_in


def _shift_place(pl, off, bmap=None):
    pl['l'] += off
    np = []
    for p in pl['p']:
        m = re.match(r'^\[_(\d+)\]$', p)
        if m:
            p = '[_%d]' % (int(m.group(1)) + off)
        np.append(p)
    pl['p'] = np


def _shift_operand(o, off):
    if o.get('k') in ('copy', 'move'):
        _shift_place(o['pl'], off)


def _shift_block(bb, off, boff):
    for s in bb['stmts']:
        if s['k'] == 'assign':
            _shift_place(s['dst'], off)
            rv = s['rv']
            if 'pl' in rv:
                _shift_place(rv['pl'], off)
            for o in rv.get('ops', []):
                _shift_operand(o, off)
        elif s['k'] in ('live', 'dead'):
            s['l'] += off
        elif s['k'] == 'setdiscr':
            _shift_place(s['dst'], off)
    t = bb['term']
    k = t['k']
    if k == 'call':
        for a in t['args']:
            _shift_operand(a, off)
        _shift_place(t['dst'], off)
        if t.get('target', -1) >= 0:
            t['target'] += boff
    elif k == 'drop':
        _shift_place(t['pl'], off)
        t['target'] += boff
    elif k == 'switch':
        _shift_operand(t['op'], off)
        t['targets'] = [[v, tg + boff] for v, tg in t['targets']]
        t['otherwise'] += boff
    elif k in ('goto',):
        t['target'] += boff
    elif k == 'assert':
        _shift_operand(t['op'], off)
        t['target'] += boff


def inline_call(caller, bi, callee):
    """splice `callee` into `caller` at the call terminating block bi (caller is modified in place)"""
    t = caller['blocks'][bi]['term']
    off = len(caller['locals'])
    boff = len(caller['blocks'])
    cb = copy.deepcopy({'locals': callee['locals'], 'blocks': callee['blocks']})
    caller['locals'] = caller['locals'] + cb['locals']
    for bb in cb['blocks']:
        _shift_block(bb, off, boff)
    # parameters := operands
    sp, ex = t['sp'], t.get('exp', '')
    pre = []
    for i, a in enumerate(t['args']):
        pre.append({'k': 'assign', 'dst': {'l': off + 1 + i, 'p': []}, 'rv': {'k': 'use', 'ops': [a]}, 'sp': sp, 'exp': ex})
    caller['blocks'][bi]['stmts'] = caller['blocks'][bi]['stmts'] + pre
    # returns: dst := _0'; goto continuation
    cont = t.get('target', -1)
    for bb in cb['blocks']:
        if bb['term']['k'] == 'return':
            bb['stmts'].append({'k': 'assign', 'dst': copy.deepcopy(t['dst']), 'rv': {'k': 'use', 'ops': [{'k': 'move', 'pl': {'l': off, 'p': []}}]}, 'sp': sp, 'exp': ex})
            if cont >= 0:
                bb['term'] = {'k': 'goto', 'target': cont, 'sp': sp, 'exp': ex}
            else:
                bb['term'] = {'k': 'unreachable', 'sp': sp, 'exp': ex}
    caller['blocks'][bi]['term'] = {'k': 'goto', 'target': boff, 'sp': sp, 'exp': ex}
    caller['blocks'] = caller['blocks'] + cb['blocks']
    # bookkeeping for the role extraction: where inlined regions start and which locals hold inlined return values
    caller.setdefault('inl_regions', []).append({'entry': boff, 'end': boff + len(cb['blocks']), 'ret': off, 'callee': callee['q'], 'site': bi})
    # debug names of the callee's locals
    for k, v in callee.get('dbg', {}).items():
        caller.setdefault('dbg', {})[str(int(k) + off)] = v


def absorb_kernel_helpers(F, is_kernel_candidate, max_depth=3, max_blocks=400, is_kernel=None):
    """returns (set of absorbed function q, dict caller q -> new body).  F.bodies is not modified."""
    bodies = F.bodies
    cands = {q for q, b in bodies.items() if b['kind'] != 'Closure' and is_kernel_candidate(b)}
    callers = {}
    for q, b in bodies.items():
        owner = re.sub(r'(::\{closure#\d+\})+$', '', q)
        for bi, t in calls_in(b, lambda t: t.get('local') and t.get('res') in bodies):
            callers.setdefault(t['res'], set()).add(owner)

    def private(q):
        f = F.fns.get(q)
        return f is not None and f.get('vis') != 'Public' and not f.get('reach')
    absorbed = set()
    # guard accessors: private straight-line functions that return a borrow / lock guard (`fn adj(&self) -> RwLockReadGuard<..>`)
    # are the acquisition they wrap; they are spliced into every caller so that the guard rules see the acquisition itself
    from .guards import GUARD_SH, GUARD_EX, ACQ
    for q, b in bodies.items():
        if b['kind'] == 'Closure' or b['impl_trait'] or not private(q) or q in callers.get(q, ()):
            continue
        rt = F.types[b['locals'][0]]
        if rt['k'] == 'adt' and (GUARD_SH.match(rt['p']) or GUARD_EX.match(rt['p'])) and \
                not any(bb['term']['k'] == 'switch' for bb in b['blocks'] if not bb['cleanup']) and \
                sum(1 for bi, t in calls_in(b) if t['callee'] in ACQ) == 1 and len([1 for bi, t in calls_in(b)]) <= 6:
            absorbed.add(q)
    changed = True
    while changed:
        changed = False
        for q, b in bodies.items():
            if q in absorbed or b['kind'] == 'Closure' or b['impl_trait'] or not private(q):
                continue
            cs = callers.get(q, set())
            if not cs or q in cs:
                continue   # never called, or recursive
            def iterates(x):
                return any(t['callee'] == 'std::iter::Iterator::next' for bi, t in calls_in(x))
            # a kernel-shaped function that iterates is a kernel in its own right unless every caller is such a kernel too (then
            # it is a helper extracted from kernels); called from an entry point or from a dispatcher it stays separate
            real_kernel = is_kernel is not None and is_kernel(b) and iterates(b) and \
                not all(c in bodies and is_kernel(bodies[c]) and iterates(bodies[c]) for c in cs)
            if all((c in cands and c != q) or c in absorbed for c in cs) and any(c in cands or c in absorbed for c in cs) and not real_kernel and \
                    not (is_kernel is not None and is_kernel(b) and any(c not in absorbed and not is_kernel(bodies[c]) for c in cs if c in bodies)):
                # (a kernel-shaped function called from an entry point is a real kernel, not a helper of the entry)
                absorbed.add(q)
                changed = True
            elif q in cands and (is_kernel is None or is_kernel(b)) and not any(t['callee'] == 'std::iter::Iterator::next' for bi, t in calls_in(b)) and \
                    any(t.get('res') in cands and t.get('res') != q for bi, t in calls_in(b, lambda t: t.get('local'))):
                # a private dispatcher: kernel-shaped parameters, no iteration of its own, forwards to kernels;
                # it is part of the entry points that call it
                absorbed.add(q)
                changed = True
    if not absorbed:
        return absorbed, {}
    new = {}
    for q, b in bodies.items():
        # (absorbed helpers are rewritten too: rules that still look at them, like the sibling comparison, see the same
        # flattened form on both sides)
        if not any(t.get('res') in absorbed and t.get('res') != q for bi, t in calls_in(b, lambda t: t.get('local'))):
            continue
        nb = copy.deepcopy({k: v for k, v in b.items() if k != '_facts'})
        depth = 0
        while depth < max_depth:
            sites = [(bi, t) for bi, t in calls_in(nb, lambda t: t.get('local') and t.get('res') in absorbed and t.get('res') != q)]
            if not sites or len(nb['blocks']) > max_blocks:
                break
            for bi, t in sites:
                inline_call(nb, bi, bodies[t['res']])
            depth += 1
        # a helper that reports its outcome as a constant on each of its exits (`return false; .. true`) and is switched on by its
        # caller: each exit is routed straight to the branch it selects
        from .normalize import thread_constants
        try:
            thread_constants(F, nb)
        except Exception:
            pass
        nb['_facts'] = F
        nb['inlined'] = sorted(absorbed & {t.get('res') for b2 in [b] for bi, t in calls_in(b2)})
        new[q] = nb
    return absorbed, new


# ---------------------------------------------------------------------------------------------------------------------
# lazy `filter` adaptors:  `for x in ITER.filter(|x| p(x)) { BODY }`  ==  `for x in ITER { if p(&x) { BODY } }`
# The adaptor is rewritten into that form (the predicate closure is spliced in at the `next()` site) so that the role
# extraction sees the filter callback where it would be in the loop form.  Nothing else about the body changes; other
# adaptors (take_while, skip, rev, step_by, ...) are NOT rewritten -- they change which items are seen and stay visible
# to the rules as what they are.
def _assign(dst, rv, sp, exp=''):
    return {'k': 'assign', 'dst': {'l': dst, 'p': []}, 'rv': rv, 'sp': sp, 'exp': exp}


def desugar_filters(F, b, max_rounds=4):
    """returns a rewritten copy of body b, or None when b has no `Iterator::filter(iter, closure)` with a local closure"""
    def sites_of(body):
        out = []
        for bi, t in calls_in(body, lambda t: t['callee'] == 'std::iter::Iterator::filter' and len(t['args']) == 2 and t.get('gargs')):
            C = t['args'][1]
            if C['k'] not in ('move', 'copy') or C['pl']['p'] or t['dst']['p'] or t.get('target', -1) < 0:
                continue
            cty = F.types[body['locals'][C['pl']['l']]]
            if cty['k'] == 'closure' and cty['p'] in F.bodies:
                out.append((bi, t, cty['p']))
        return out
    if not sites_of(b):
        return None
    nb = copy.deepcopy({k: v for k, v in b.items() if k != '_facts'})
    isize = next((i for i, ty in enumerate(F.types) if ty.get('s') == 'isize'), None)
    if isize is None:
        return None
    done = []
    for _ in range(max_rounds):
        ss = sites_of(nb)
        if not ss:
            break
        bi, t, cq = ss[0]
        clo = F.bodies[cq]
        A, C = t['args']
        filt_ty = nb['locals'][t['dst']['l']]
        inner_ty = t['gargs'][0]
        inner = F.types[inner_ty]
        sp, ex = t['sp'], t.get('exp', '')
        P = len(nb['locals'])
        nb['locals'].append(nb['locals'][C['pl']['l']])
        blk = nb['blocks'][bi]
        blk['stmts'] = blk['stmts'] + [_assign(t['dst']['l'], {'k': 'use', 'ops': [A]}, sp, ex), _assign(P, {'k': 'use', 'ops': [C]}, sp, ex)]
        blk['term'] = {'k': 'goto', 'target': t['target'], 'sp': sp, 'exp': ex}
        # the adaptor value *is* the inner iterator from here on
        refs = {}
        for i, ty in enumerate(nb['locals']):
            if ty == filt_ty:
                nb['locals'][i] = inner_ty
            else:
                tt = F.types[ty]
                if tt['k'] == 'ref' and tt.get('a') == [filt_ty]:
                    key = bool(tt.get('m'))
                    if key not in refs:
                        F.types.append({'k': 'ref', 'm': key, 'a': [inner_ty], 's': ('&mut ' if key else '&') + inner.get('s', '?')})
                        refs[key] = len(F.types) - 1
                    nb['locals'][i] = refs[key]
        nexts = [(nbi, nt) for nbi, nt in calls_in(nb, lambda x: x['callee'] == 'std::iter::Iterator::next' and x.get('gargs') == [filt_ty])]
        for nbi, nt in nexts:
            R = nt['dst']['l']
            if nt['dst']['p'] or nt.get('target', -1) < 0:
                return None
            T = nt['target']
            tb = nb['blocks'][T]
            # thread the jump through `switch discr(R)` when that is all T does
            some_t = none_t = None
            dl = None
            for s in tb['stmts']:
                if s['k'] == 'assign' and s['rv']['k'] == 'discr' and s['rv']['pl'] == {'l': R, 'p': []} and not s['dst']['p']:
                    dl = s['dst']['l']
            if dl is not None and tb['term']['k'] == 'switch' and tb['term']['op'].get('pl') == {'l': dl, 'p': []} and \
                    all(s['k'] in ('live', 'dead') or (s['k'] == 'assign' and s['dst']['l'] == dl) for s in tb['stmts']):
                tg = dict((v, x) for v, x in tb['term']['targets'])
                some_t = tg.get(1, tb['term']['otherwise'])
                none_t = tg.get(0, tb['term']['otherwise'])
            nt['res'] = '<%s as std::iter::Iterator>::next' % inner.get('p', '?')
            nt['gargs'] = [inner_ty]
            nt['local'] = bool(inner.get('local'))
            D = len(nb['locals'])
            nb['locals'].append(isize)
            tmp = len(nb['locals'])
            nb['locals'].append(clo['locals'][2])
            pr = len(nb['locals'])
            nb['locals'].append(clo['locals'][1])
            B = len(nb['locals'])
            nb['locals'].append(clo['locals'][0])
            n1 = len(nb['blocks'])
            n2, n3, n_some, n_none = n1 + 1, n1 + 2, n1 + 3, n1 + 4
            nt['target'] = n1
            tstm = copy.deepcopy(tb['stmts']) if some_t is not None else []
            nb['blocks'].append({'cleanup': False, 'stmts': [_assign(D, {'k': 'discr', 'pl': {'l': R, 'p': []}, 'adt': 'std::option::Option', 'variants': ['None', 'Some']}, sp, ex)],
                                 'term': {'k': 'switch', 'op': {'k': 'move', 'pl': {'l': D, 'p': []}}, 'targets': [[1, n2]], 'otherwise': n_none, 'sp': sp, 'exp': ex}})
            nb['blocks'].append({'cleanup': False, 'stmts': [
                _assign(tmp, {'k': 'ref', 'mut': False, 'pl': {'l': R, 'p': ['as Some#1', '.0:0@std::option::Option']}}, sp, ex),
                _assign(pr, {'k': 'ref', 'mut': True, 'pl': {'l': P, 'p': []}}, sp, ex)],
                'term': {'k': 'call', 'callee': cq, 'res': cq, 'rk': 'item', 'local': True, 'selfk': 'concrete', 'gargs': [],
                         'args': [{'k': 'move', 'pl': {'l': pr, 'p': []}}, {'k': 'move', 'pl': {'l': tmp, 'p': []}}], 'dst': {'l': B, 'p': []}, 'target': n3, 'sp': sp, 'exp': ex}})
            nb['blocks'].append({'cleanup': False, 'stmts': [],
                                 'term': {'k': 'switch', 'op': {'k': 'move', 'pl': {'l': B, 'p': []}}, 'targets': [[0, nbi]], 'otherwise': n_some, 'sp': sp, 'exp': ex}})
            nb['blocks'].append({'cleanup': False, 'stmts': copy.deepcopy(tstm), 'term': {'k': 'goto', 'target': some_t if some_t is not None else T, 'sp': sp, 'exp': ex}})
            nb['blocks'].append({'cleanup': False, 'stmts': copy.deepcopy(tstm), 'term': {'k': 'goto', 'target': none_t if none_t is not None else T, 'sp': sp, 'exp': ex}})
            inline_call(nb, n2, clo)
        done.append(cq)
    nb['_facts'] = F
    nb['desugared_filters'] = done
    return nb


# ---------------------------------------------------------------------------------------------------------------------
# a closure bound to a local and called directly (`let step = |v| {..}; step(&x)`) is a local function: its body is spliced in
# at the call, so that what it does is seen where it happens
FN_CALLS = ('std::ops::Fn::call', 'std::ops::FnMut::call_mut', 'std::ops::FnOnce::call_once')


def inline_direct_closure_calls(F, b, max_rounds=4):
    def sites(body):
        out = []
        for bi, t in calls_in(body, lambda t: t['callee'] in FN_CALLS and t.get('res') in F.bodies and F.bodies[t['res']]['kind'] == 'Closure' and len(t['args']) == 2):
            tup = t['args'][1]
            if tup.get('k') not in ('move', 'copy') or tup['pl']['p']:
                continue
            ops = None
            for bb in body['blocks']:
                if bb['cleanup']:
                    continue
                for s_ in bb['stmts']:
                    if s_['k'] == 'assign' and s_['dst'] == {'l': tup['pl']['l'], 'p': []}:
                        ops = s_['rv']['ops'] if s_['rv']['k'] == 'aggr' and s_['rv']['ak'] == 'tuple' and ops is None else False
            if ops is not None and ops is not False and len(ops) + 2 == F.bodies[t['res']]['argc'] + 1:
                out.append((bi, t, ops))
        return out
    if b['kind'] == 'Closure' or not sites(b):
        return None
    nb = copy.deepcopy({k: v for k, v in b.items() if k != '_facts'})
    done = []
    for _ in range(max_rounds):
        ss = sites(nb)
        if not ss or len(nb['blocks']) > 800:
            break
        bi, t, ops = ss[0]
        t['args'] = [t['args'][0]] + copy.deepcopy(ops)
        t['callee'] = t['res']
        t['local'] = True
        inline_call(nb, bi, F.bodies[t['res']])
        # not a helper region that decides the caller's result
        nb['inl_regions'] = nb.get('inl_regions', [])[:-1]
        done.append(t['res'])
    nb['_facts'] = F
    nb['inlined_closures'] = done
    return nb
