"""C11: scc() as a composition schema (Kosaraju) over searches covered by C07/C08/C10.  SCC1 (first pass), SCC2 (second pass)."""
import re
from .core import Obl, calls_in, callee_name, pretty, strip_payload, unwrap_payload, deep_unwrap, term_calls, term_mentions, proj_field
from .kernels import key_of
from .rules_serde import _loops_with_driver, _exhaustive

P1_, P2_ = ('param', 1), ('param', 2)


def _chain(term):
    """builder chain of a search result term: list of (short name, call term) from the outermost call inwards along arg 0"""
    out = []
    t = unwrap_payload(term)
    while isinstance(t, tuple) and t and t[0] == 'call' and re.search(r'::node::(algo::\w+::\w+|Node)::\w+$', t[1]):
        out.append((t[1].split('::')[-1], t))
        if not t[2]:
            break
        t = unwrap_payload(t[2][0])
    return out, t


def _filter_closure_ok(F, clo, setterm):
    """closure {captured set} with body  !contains(set, key(edge.1))"""
    if not (isinstance(clo, tuple) and clo[0] == 'aggr' and clo[1].startswith('closure:')):
        return False, 'filter argument is not a closure'
    cb = F.bodies.get(clo[1][len('closure:'):])
    if cb is None:
        return False, 'closure body missing'
    caps = [deep_unwrap(x) for x in clo[2]]
    if caps != [setterm]:
        return False, 'closure captures %s, not the set of already-assigned nodes' % [pretty(c) for c in caps]
    t = F.prov(cb).of_local(0)
    ok = isinstance(t, tuple) and t[0] == 'unop' and t[1] == 'Not' and isinstance(t[2], tuple) and t[2][0] == 'call' and t[2][1].split('::')[-1] == 'contains' and \
        deep_unwrap(t[2][2][0]) == ('f', P1_, '0') and deep_unwrap(t[2][2][1]) == key_of(('f', P2_, '1'))
    return ok, 'closure returns ' + pretty(t)


BAD_ADAPT = ('rev', 'skip', 'take', 'filter', 'step_by', 'skip_while', 'take_while', 'filter_map', 'chain', 'flat_map', 'zip')


def _is_result(z, st, sbi):
    return isinstance(z, tuple) and z and z[0] == 'call' and z[1] == st['res'] and z[3] == sbi


def _bulk_keys(F, body, setterm, st, sbi):
    """calls  SET.extend(RESULT.iter().map(|n| key(n)))  -- every element, in order, no other adaptor"""
    from .core import closure_result
    pv = F.prov(body)
    out = []
    for bi, t in calls_in(body):
        if callee_name(t).split('::')[-1].rstrip('>') != 'extend' or len(t['args']) < 2 or deep_unwrap(pv.of_operand(t['args'][0])) != setterm:
            continue
        src = pv.of_operand(t['args'][1])
        cs = term_calls(src)
        if not term_mentions(src, lambda z: _is_result(z, st, sbi)):
            continue
        if any(c[1].startswith('std::iter::Iterator::') and c[1].split('::')[-1] in BAD_ADAPT for c in cs):
            continue
        maps = [c for c in cs if c[1] == 'std::iter::Iterator::map']
        if len(maps) != 1:
            continue
        cr = closure_result(F, maps[0][2][1], [P2_])
        if cr is not None and deep_unwrap(cr) == key_of(P2_):
            out.append((bi, t))
    return out


def _bulk_whole(F, body, dstterm, st, sbi):
    """calls  DST.extend(RESULT) / DST.append(&mut RESULT): the whole result, in order"""
    pv = F.prov(body)
    out = []
    for bi, t in calls_in(body):
        nm = callee_name(t).split('::')[-1].rstrip('>')
        if nm not in ('extend', 'append') or len(t['args']) < 2 or strip_payload(pv.of_operand(t['args'][0])) != dstterm:
            continue
        src = pv.of_operand(t['args'][1])
        if not term_mentions(src, lambda z: _is_result(z, st, sbi)):
            continue
        if any(c[1].startswith('std::iter::Iterator::') and c[1].split('::')[-1] in BAD_ADAPT + ('map',) for c in term_calls(src)):
            continue
        out.append((bi, t))
    return out


def scc_rules(ctx, flavours):
    F = ctx.F
    out = []
    for fl in flavours:
        gp = fl + '::Graph'
        so = F.bodies.get(gp + '::scc_ordering')
        sc = F.bodies.get(gp + '::scc')
        if sc is None:
            out.append(Obl('SCC2', gp + '::scc', '-', 'scc present', False, 'anchor missing'))
            continue
        # first pass: the function whose result scc consumes
        spv, scfg = F.prov(sc), F.cfg(sc)
        # ---------------- SCC2
        why = []
        ret = strip_payload(spv.of_local(0))
        L = _loops_with_driver(F, sc)

        def first_pass_of(term):
            """the Graph method call on self whose result `term` is (a view of)"""
            for c in term_calls(term):
                if c[1] in F.bodies and F.bodies[c[1]]['impl_self_q'] == gp and c[2] and deep_unwrap(c[2][0]) == P1_ and F.bodies[c[1]]['kind'] != 'Closure':
                    return c
            return None
        main = None
        back_to_front = False
        # (a) while let Some(node) = ordering.pop()
        for bi, t in calls_in(sc):
            if callee_name(t) == 'std::vec::Vec::pop':
                src = first_pass_of(spv.of_operand(t['args'][0]))
                if src is not None:
                    main = (bi, t, src)
                    back_to_front = True
        # (b) for node in ordering[.iter()|.into_iter()][.rev()], possibly after ordering.reverse()
        if main is None:
            for lb, l in L.items():
                src = first_pass_of(l['iter'])
                if src is None:
                    continue
                revs = sum(1 for c in term_calls(l['iter']) if c[1] in ('std::iter::Iterator::rev',))
                others = [c[1] for c in term_calls(l['iter']) if c[1].startswith('std::iter::Iterator::') and c[1].split('::')[-1] in ('skip', 'take', 'filter', 'step_by', 'skip_while', 'take_while')]
                for rbi, rt in calls_in(sc):
                    if callee_name(rt).split('::')[-1] == 'reverse' and first_pass_of(spv.of_operand(rt['args'][0])) is not None and scfg.dominates(rbi, lb) and not any(rbi in body for body in scfg.loops().values()):
                        revs += 1
                if others:
                    why.append('the ordering is not consumed completely: ' + ', '.join(others))
                main = (lb, l['t'], src)
                back_to_front = revs % 2 == 1
        if main is None:
            why.append('scc does not consume a first-pass ordering (no loop over the result of a Graph method)')
        elif not back_to_front:
            why.append('the first-pass ordering is consumed front to back (Kosaraju needs decreasing finishing time)')
        if main is not None:
            bi, t, src = main
            first = F.bodies[src[1]]
            NODE = deep_unwrap(('v', ('call', callee_name(t), tuple(spv.of_operand(a) for a in t['args']), bi), 'Some'))
            loops = scfg.loops()
            if not any(bi in body for body in loops.values()):
                why.append('the ordering is not consumed in a loop')
            # the ordering is only consumed one node at a time: no other mutation of it
            for obi, ot in calls_in(sc):
                recv = deep_unwrap(spv.of_operand(ot['args'][0])) if ot['args'] else None
                if isinstance(recv, tuple) and recv and recv[0] == 'call' and recv[1] == src[1] and recv[3] == src[3]:
                    nm = callee_name(ot).split('::')[-1].rstrip('>')
                    if nm not in ('pop', 'reverse', 'iter', 'into_iter', 'len', 'is_empty', 'deref', 'deref_mut', 'last', 'rev', 'next'):
                        why.append('the first-pass ordering is also modified by %s (nodes can be skipped)' % nm)
            # assigned set: the set tested with contains(set, key(NODE))
            conts = [(cbi, ct) for cbi, ct in calls_in(sc) if callee_name(ct).split('::')[-1] == 'contains' and deep_unwrap(spv.of_operand(ct['args'][1])) == key_of(NODE)]
            if len(conts) != 1:
                why.append('%d membership tests of the popped node' % len(conts))
            else:
                cbi, ct = conts[0]
                ASSIGNED = deep_unwrap(spv.of_operand(ct['args'][0]))
                te, fe = scfg.bool_edges(ct['dst']['l'], ct['target'])
                # the component search
                searches = [(sbi, st) for sbi, st in calls_in(sc) if st.get('local') and re.search(r'::node::algo::\w+::\w+::(search\w*)$', st['res'])]
                if len(searches) != 1:
                    why.append('%d searches in the second pass' % len(searches))
                else:
                    sbi, st = searches[0]
                    if fe is None or not scfg.edge_dominates(fe[0], fe[1], sbi):
                        why.append('component search is not confined to unassigned nodes')
                    term = ('call', st['res'], tuple(spv.of_operand(a) for a in st['args']), sbi)
                    ch, root = _chain(term)
                    names = [n for n, _ in ch]
                    kind = st['res'].split('::')[-1]
                    fam = st['res'].split('::')[-2]
                    if kind != 'search_nodes' or fam != 'Order':
                        why.append('component is taken from %s::%s: a path/cycle search yields a simple cycle, a strict subset of the component whenever the component is not a simple cycle; '
                                   'a reachable-set search (Order::search_nodes) is required' % (fam, kind))
                    if 'transpose' not in names:
                        why.append('second-pass search is not transposed')
                    if names.count('transpose') > 1:
                        why.append('transposed twice')
                    if deep_unwrap(root) != NODE:
                        why.append('search root is %s, not the popped node' % pretty(root))
                    fl_calls = [c for n, c in ch if n == 'filter']
                    if len(fl_calls) != 1:
                        why.append('%d filters on the component search' % len(fl_calls))
                    else:
                        ok, msg = _filter_closure_ok(F, fl_calls[0][2][1], ASSIGNED)
                        if not ok:
                            why.append('filter does not reject edges into assigned nodes: ' + msg)
                    if kind == 'search_nodes' and fam == 'Order':
                        comp = deep_unwrap(term)
                        # every element of the component is inserted into ASSIGNED; the component is pushed
                        ins_ok = False
                        for lb, l in L.items():
                            if term_mentions(l['iter'], lambda z: z == comp or (isinstance(z, tuple) and z and z[0] == 'call' and z[1] == st['res'] and z[3] == sbi)):
                                ins = [(ibi, it) for ibi, it in calls_in(sc) if callee_name(it).split('::')[-1] == 'insert' and ibi in l['body'] and
                                       deep_unwrap(spv.of_operand(it['args'][0])) == ASSIGNED and deep_unwrap(spv.of_operand(it['args'][1])) == key_of(l['item'])]
                                if len(ins) == 1 and not _exhaustive(F, sc, l):
                                    ins_ok = True
                        if not ins_ok:
                            bk = _bulk_keys(F, sc, ASSIGNED, st, sbi)
                            ins_ok = len(bk) == 1 and scfg.dominates(sbi, bk[0][0])
                        if not ins_ok:
                            why.append('not every node of the component is marked assigned')
                        pushes = [(pbi, pt) for pbi, pt in calls_in(sc) if callee_name(pt).endswith('Vec::push') and strip_payload(spv.of_operand(pt['args'][0])) == ret]
                        good = [p for p in pushes if term_mentions(spv.of_operand(p[1]['args'][1]), lambda z: isinstance(z, tuple) and z and z[0] == 'call' and z[1] == st['res'] and z[3] == sbi)]
                        if len(pushes) != 1 or len(good) != 1:
                            why.append('%d pushes to the result, %d of them the searched component' % (len(pushes), len(good)))
        out.append(Obl('SCC2', sc['q'], sc['span'], 'second pass: pop the ordering, transposed filtered reachable-set search from each unassigned node, mark and emit it', not why, '; '.join(why) if why else 'ok'))
        # ---------------- SCC1
        why = []
        if main is None:
            out.append(Obl('SCC1', gp, '-', 'first pass', False, 'no first-pass function identified'))
            continue
        fb = first
        fpv, fcfg = F.prov(fb), F.cfg(fb)
        FL = _loops_with_driver(F, fb)
        members = {bi: l for bi, l in FL.items() if isinstance(l['iter'], tuple) and l['iter'][0] == 'call' and l['iter'][1].split('::')[-1] in ('iter', 'values') and l['iter'][2] and l['iter'][2][0] in (P1_, ('f', P1_, '0'))}
        fret = strip_payload(fpv.of_local(0))
        if len(members) != 1:
            why.append('%d loops over all members' % len(members))
        else:
            mb, ML = next(iter(members.items()))
            MEM = ('f', ML['item'], '1') if ML['iter'][1].split('::')[-1] == 'iter' else ML['item']
            if _exhaustive(F, fb, ML):
                why.append('member loop has an early exit')
            conts = [(cbi, ct) for cbi, ct in calls_in(fb) if callee_name(ct).split('::')[-1] == 'contains' and deep_unwrap(fpv.of_operand(ct['args'][1])) == key_of(MEM)]
            if len(conts) != 1:
                why.append('%d visited tests of the member' % len(conts))
            else:
                cbi, ct = conts[0]
                VIS = deep_unwrap(fpv.of_operand(ct['args'][0]))
                te, fe = fcfg.bool_edges(ct['dst']['l'], ct['target'])
                searches = [(sbi, st) for sbi, st in calls_in(fb) if st.get('local') and re.search(r'::node::algo::\w+::\w+::(search\w*)$', st['res'])]
                if len(searches) != 1:
                    why.append('%d searches in the first pass' % len(searches))
                else:
                    sbi, st = searches[0]
                    if fe is None or not fcfg.edge_dominates(fe[0], fe[1], sbi):
                        why.append('first-pass search is not confined to unvisited members')
                    term = ('call', st['res'], tuple(fpv.of_operand(a) for a in st['args']), sbi)
                    ch, root = _chain(term)
                    names = [n for n, _ in ch]
                    if st['res'].split('::')[-1] != 'search_nodes' or st['res'].split('::')[-2] != 'Order':
                        why.append('first pass uses %s' % st['res'])
                    if 'postorder' not in names:
                        why.append('first pass is not a postorder (chain: %s)' % '.'.join(reversed(names)))
                    if 'transpose' in names:
                        why.append('first pass is transposed')
                    if deep_unwrap(root) != deep_unwrap(MEM):
                        why.append('first-pass root is %s, not the member' % pretty(root))
                    fl_calls = [c for n, c in ch if n == 'filter']
                    if len(fl_calls) != 1:
                        why.append('%d filters on the first-pass search' % len(fl_calls))
                    else:
                        ok, msg = _filter_closure_ok(F, fl_calls[0][2][1], VIS)
                        if not ok:
                            why.append('filter does not reject edges into visited nodes: ' + msg)
                    inner = [l for lb, l in FL.items() if lb != mb and term_mentions(l['iter'], lambda z: isinstance(z, tuple) and z and z[0] == 'call' and z[1] == st['res'] and z[3] == sbi)]
                    bk = _bulk_keys(F, fb, VIS, st, sbi) if not inner else []
                    bw = _bulk_whole(F, fb, fret, st, sbi) if not inner else []
                    if not inner and len(bk) == 1 and len(bw) == 1 and fcfg.dominates(sbi, bk[0][0]) and fcfg.dominates(sbi, bw[0][0]):
                        pass   # bulk form: visited.extend(keys of the postorder); ordering.extend(postorder)
                    elif len(inner) != 1:
                        why.append('result of the first-pass search is not walked by exactly one loop')
                    else:
                        l = inner[0]
                        it = l['iter']
                        if any(c[1].startswith('std::iter::Iterator::') and c[1].split('::')[-1] in ('rev', 'skip', 'take', 'filter', 'step_by', 'skip_while', 'take_while') for c in term_calls(it)):
                            why.append('first-pass result is not appended completely and in order: ' + pretty(it))
                        if _exhaustive(F, fb, l):
                            why.append('append loop has an early exit')
                        ins = [(ibi, itt) for ibi, itt in calls_in(fb) if callee_name(itt).split('::')[-1] == 'insert' and ibi in l['body'] and deep_unwrap(fpv.of_operand(itt['args'][0])) == VIS and
                               deep_unwrap(fpv.of_operand(itt['args'][1])) == key_of(l['item'])]
                        pus = [(pbi, pt) for pbi, pt in calls_in(fb) if callee_name(pt).endswith('Vec::push') and pbi in l['body'] and strip_payload(fpv.of_operand(pt['args'][0])) == fret and
                               deep_unwrap(fpv.of_operand(pt['args'][1])) == l['item']]
                        if len(ins) != 1 or len(pus) != 1:
                            why.append('per postorder node: %d visited inserts, %d ordering pushes (expected 1 / 1)' % (len(ins), len(pus)))
        out.append(Obl('SCC1', fb['q'], fb['span'], 'first pass: for every unvisited member append its filtered postorder (not transposed) to visited and to the ordering', not why, '; '.join(why) if why else 'ok'))
    return out
