"""ORD-NODE (node ordering / equality impls), REV (Edge::reverse), ORD2 (assembly of orderings), PFS-SEARCH."""
import re
from .core import Obl, calls_in, callee_name, pretty, strip_payload, unwrap_payload, deep_unwrap, term_calls, term_mentions, proj_field
from . import dispatch
from .kernels import key_of

P1_, P2_ = ('param', 1), ('param', 2)
KEY = lambda t: ('f', ('f', t, '0'), '0')
VAL = lambda t: ('f', ('f', t, '0'), '1')


def ord_node(ctx, flavours):
    """Ord::cmp(a,b) = cmp(value(a), value(b)); partial_cmp = Some(same); eq = eq(key(a), key(b)); no provided method overridden"""
    F = ctx.F
    out = []
    for fl in flavours:
        node = fl + '::node::Node'
        want = {
            'std::cmp::Ord': {'cmp'}, 'std::cmp::PartialOrd': {'partial_cmp'}, 'std::cmp::PartialEq': {'eq'},
        }
        for tr, methods in sorted(want.items()):
            ims = [im for im in F.impls if im['self_q'] == node and im['trait'] == tr]
            if len(ims) != 1:
                out.append(Obl('ORD-NODE', node, '-', 'impl %s for Node' % tr, False, '%d impls' % len(ims)))
                continue
            im = ims[0]
            names = {i.split('::')[-1] for i in im['items']}
            extra = names - methods
            out.append(Obl('ORD-NODE', node, im['span'], 'impl %s defines only %s' % (tr.split('::')[-1], sorted(methods)), names == methods,
                           'overrides provided methods: %s' % sorted(extra) if extra else ('missing %s' % sorted(methods - names) if names != methods else 'ok')))
            for m in methods & names:
                q = '<%s as %s>::%s' % (node, tr, m)
                b = F.bodies.get(q)
                if b is None:
                    out.append(Obl('ORD-NODE', q, im['span'], 'body present', False, 'missing'))
                    continue
                pv = F.prov(b)
                rt = pv.of_local(0)
                if m == 'cmp':
                    ok = isinstance(rt, tuple) and rt[0] == 'call' and rt[1] == 'std::cmp::Ord::cmp' and [deep_unwrap(x) for x in rt[2]] == [VAL(P1_), VAL(P2_)]
                    inst = 'cmp(a,b) = Ord::cmp(value(a), value(b))'
                elif m == 'partial_cmp':
                    ok = isinstance(rt, tuple) and rt[0] == 'aggr' and rt[1].endswith('Option::Some') and isinstance(rt[2][0], tuple) and rt[2][0][0] == 'call' and \
                        rt[2][0][1] == 'std::cmp::Ord::cmp' and [deep_unwrap(x) for x in rt[2][0][2]] == [VAL(P1_), VAL(P2_)]
                    if not ok:
                        # also accepted: Some(self.cmp(other))
                        ok = isinstance(rt, tuple) and rt[0] == 'aggr' and rt[1].endswith('Option::Some') and isinstance(rt[2][0], tuple) and rt[2][0][0] == 'call' and \
                            rt[2][0][1] == '<%s as std::cmp::Ord>::cmp' % node and [deep_unwrap(x) for x in rt[2][0][2]] == [P1_, P2_]
                    inst = 'partial_cmp(a,b) = Some(Ord::cmp(value(a), value(b)))'
                else:
                    ok = isinstance(rt, tuple) and rt[0] == 'call' and rt[1].endswith('PartialEq<&B>>::eq') or (isinstance(rt, tuple) and rt[0] == 'call' and rt[1] == 'std::cmp::PartialEq::eq')
                    ok = ok and sorted(map(repr, [deep_unwrap(x) for x in rt[2]])) == sorted(map(repr, [KEY(P1_), KEY(P2_)]))
                    inst = 'eq(a,b) = eq(key(a), key(b))'
                out.append(Obl('ORD-NODE', q, b['span'], inst, ok, 'returns ' + pretty(rt)))
        # Eq is a marker impl
        ims = [im for im in F.impls if im['self_q'] == node and im['trait'] == 'std::cmp::Eq']
        out.append(Obl('ORD-NODE', node, ims[0]['span'] if ims else '-', 'impl Eq for Node', len(ims) == 1 and not [i for i in ims[0]['items']], 'marker impl' if len(ims) == 1 else '%d impls' % len(ims)))
    return out


def rev(ctx, flavours):
    """Edge::reverse swaps endpoints and keeps the value: Edge(e.1, e.0, e.2)"""
    F = ctx.F
    out = []
    for fl in flavours:
        q = fl + '::node::Edge::reverse'
        b = F.bodies.get(q)
        if b is None:
            out.append(Obl('REV', q, '-', 'Edge::reverse present', False, 'anchor missing'))
            continue
        pv = F.prov(b)
        rt = pv.of_local(0)
        ok = isinstance(rt, tuple) and rt[0] == 'aggr' and rt[1] == 'adt:%s::node::Edge::Edge' % fl and [strip_payload(x) for x in rt[2]] == [('f', P1_, '1'), ('f', P1_, '0'), ('f', P1_, '2')]
        out.append(Obl('REV', q, b['span'], 'reverse(e) = Edge(e.1, e.0, e.2)', ok, 'returns ' + pretty(rt)))
        # Edge::clone is field-wise (derived, or written out): a copy of an edge is the same edge
        cq = '<%s::node::Edge as std::clone::Clone>::clone' % fl
        cb = F.bodies.get(cq)
        if cb is None:
            out.append(Obl('REV', cq, '-', 'Edge: Clone present', False, 'anchor missing'))
        else:
            ct = F.prov(cb).of_local(0)
            okc = bool(cb.get('auto_derived')) or (isinstance(ct, tuple) and ct[0] == 'aggr' and ct[1] == 'adt:%s::node::Edge::Edge' % fl and
                                                    [deep_unwrap(x) for x in ct[2]] == [('f', P1_, '0'), ('f', P1_, '1'), ('f', P1_, '2')])
            out.append(Obl('REV', cq, cb['span'], 'clone(e) = Edge(e.0, e.1, e.2)', okc, 'derived' if cb.get('auto_derived') else 'returns ' + pretty(ct)))
        for nm, idx in (('source', '0'), ('target', '1'), ('value', '2')):
            ab = F.bodies.get('%s::node::Edge::%s' % (fl, nm))
            if ab is None:
                out.append(Obl('REV', '%s::node::Edge::%s' % (fl, nm), '-', 'accessor present', False, 'anchor missing'))
                continue
            t = strip_payload(F.prov(ab).of_local(0))
            out.append(Obl('REV', ab['q'], ab['span'], '%s(e) = e.%s' % (nm, idx), t == ('f', P1_, idx), 'returns ' + pretty(t)))
    return out


def ord2(ctx, flavours):
    """assembly: Pre arm pushes the root before appending the edge targets, Post arm after; search_edges returns the kernel's result"""
    F = ctx.F
    out = []
    dispatch.entry_pass(ctx, flavours, ('Order',))    # marks the blocks of sound shortcuts (decided by ENTRY-PASS)
    for b, sites in dispatch.entries(ctx, flavours, ('Order',)):
        pv, cfg = F.prov(b), F.cfg(b)
        rt_ty = F.types[b['locals'][0]]
        sc = set(b.get('shortcut_blocks', ()))
        rts = []
        for tm, dbi in pv.def_terms(0):
            tm = strip_payload(tm)
            if dbi not in sc and tm not in rts:
                rts.append(tm)
        ret = rts[0] if len(rts) == 1 else strip_payload(pv.of_local(0))
        rootf = dispatch._root_field(F, b)
        ROOT = ('f', P1_, rootf)
        returns_nodes = F.ty_has_adt(b['locals'][0], r'::node::Node$') and not F.ty_has_adt(b['locals'][0], r'::node::Edge$')
        for bi, t, K in sites:
            labs = dispatch.arm_context(F, b, bi)
            ords = [l.split('::')[-1] for l in labs if l.startswith('Ordering::')]
            why = []
            edges = strip_payload(pv.of_operand(t['args'][K.result - 1])) if K.result else None
            if edges is None:
                why.append('ordering kernel without a result list')
            elif returns_nodes:
                if len(ords) != 1:
                    why.append('kernel call not under exactly one Ordering arm: %s' % labs)
                def same_arm(sbi):
                    # an assembly step under a *second* `match self.order` belongs to this kernel call when the arms agree
                    ol = [l.split('::')[-1] for l in dispatch.arm_context(F, b, sbi) if l.startswith('Ordering::')]
                    return cfg.dominates(bi, sbi) or (cfg.path_exists(bi, sbi) and len(ords) == 1 and ol == ords)
                pushes = [(sbi, st) for sbi, st in calls_in(b, lambda x: callee_name(x).endswith('Vec::push')) if strip_payload(pv.of_operand(st['args'][0])) == ret and same_arm(sbi)]
                apps = [(sbi, st) for sbi, st in calls_in(b, lambda x: callee_name(x).endswith('Vec::append') or callee_name(x).split('::')[-1].rstrip('>') == 'extend') if strip_payload(pv.of_operand(st['args'][0])) == ret and same_arm(sbi)]
                if len(pushes) != 1 or strip_payload(pv.of_operand(pushes[0][1]['args'][1])) != ROOT:
                    why.append('root is not pushed exactly once on this arm')
                if len(apps) != 1:
                    why.append('%d appends of edge targets on this arm' % len(apps))
                else:
                    src = pv.of_operand(apps[0][1]['args'][1])
                    cs = term_calls(src)
                    names = [c[1].split('::')[-1] for c in cs]
                    over_edges = term_mentions(src, lambda z: z == edges)
                    clos = [z for c in cs for z in c[2] if isinstance(z, tuple) and z and z[0] == 'aggr' and z[1].startswith('closure:')]
                    is_extend = callee_name(apps[0][1]).split('::')[-1].rstrip('>') == 'extend'
                    if not over_edges or 'map' not in names or ('collect' not in names and not is_extend) or any(n in names for n in ('rev', 'skip', 'filter', 'take', 'step_by')):
                        why.append('appended list is %s, expected the targets of the kernel\'s edges in order' % pretty(src))
                    elif len(clos) != 1:
                        why.append('cannot find the projection closure')
                    else:
                        cb = F.bodies.get(clos[0][1][len('closure:'):])
                        ct = deep_unwrap(F.prov(cb).of_local(0)) if cb else None
                        if ct != ('f', P2_, '1'):
                            why.append('projection takes %s of each edge, expected the target' % pretty(ct))
                if len(pushes) == 1 and len(apps) == 1 and len(ords) == 1:
                    pre = cfg.dominates(pushes[0][0], apps[0][0])
                    post = cfg.dominates(apps[0][0], pushes[0][0])
                    if ords[0] == 'Pre' and not pre:
                        why.append('Pre arm appends the discovered nodes before the root')
                    if ords[0] == 'Post' and not post:
                        why.append('Post arm pushes the root before the finished nodes')
            else:
                if ret != edges:
                    why.append('returned list is not the one the kernel filled')
            out.append(Obl('ORD2', b['q'], F.where(b, bi), 'assembly after %s under %s' % (K.name, '+'.join(labs)), not why, '; '.join(why) if why else 'ok'))
    return out


def ord2_derived(ctx, flavours):
    """search_nodes implemented on top of search_edges: per Ordering arm, root first (Pre) / last (Post) around the targets of the edges"""
    F = ctx.F
    out = []
    direct = {b['q'] for b, sites in dispatch.entries(ctx, flavours, ('Order',))}
    for q, b in sorted(F.bodies.items()):
        if F.flavour(b) not in flavours or b['kind'] == 'Closure' or b['impl_trait'] or q in direct:
            continue
        if b['impl_self_q'].split('::')[-1] != 'Order' or '::node::algo::' not in b['impl_self_q']:
            continue
        if not (F.ty_has_adt(b['locals'][0], r'::node::Node$') and not F.ty_has_adt(b['locals'][0], r'::node::Edge$') and F.types[b['locals'][0]].get('p') == 'std::vec::Vec'):
            continue
        pv, cfg = F.prov(b), F.cfg(b)
        src_calls = [(bi, t) for bi, t in calls_in(b, lambda t: t.get('local') and t.get('res') in direct and F.ty_has_adt(F.bodies[t['res']]['locals'][0], r'::node::Edge$'))]
        why = []
        if len(src_calls) != 1 or strip_payload(pv.of_operand(src_calls[0][1]['args'][0])) != P1_:
            out.append(Obl('ORD2', q, b['span'], 'node list derived from the edge list of the same search', False, 'does not call the edge-returning search of the same builder exactly once on self'))
            continue
        sbi, st = src_calls[0]
        EDGES = deep_unwrap(('call', st['res'], tuple(pv.of_operand(a) for a in st['args']), sbi))
        ret = strip_payload(pv.of_local(0))
        rootf = dispatch._root_field(F, b)
        ROOT = ('f', P1_, rootf)
        pushes = [(bi, t) for bi, t in calls_in(b, lambda x: callee_name(x).endswith('Vec::push')) if strip_payload(pv.of_operand(t['args'][0])) == ret]
        apps = [(bi, t) for bi, t in calls_in(b, lambda x: callee_name(x).endswith('Vec::append') or callee_name(x).split('::')[-1].rstrip('>') == 'extend') if strip_payload(pv.of_operand(t['args'][0])) == ret]
        arms = {}
        for kind, sites in (('push', pushes), ('app', apps)):
            for bi, t in sites:
                labs = [l.split('::')[-1] for l in dispatch.arm_context(F, b, bi) if l.startswith('Ordering::')]
                if len(labs) != 1:
                    why.append('%s at %s is not under exactly one Ordering arm' % (kind, t['sp']))
                    continue
                arms.setdefault(labs[0], {}).setdefault(kind, []).append((bi, t))
        # iterator form: `once(root).chain(targets).collect()` (Pre) / `targets.chain(once(root)).collect()` (Post)
        colls = {}
        for bi, t in calls_in(b, lambda x: callee_name(x).endswith('Iterator::collect')):
            labs = [l.split('::')[-1] for l in dispatch.arm_context(F, b, bi) if l.startswith('Ordering::')]
            if len(labs) == 1:
                colls.setdefault(labs[0], []).append((bi, t))

        def is_root_once(x):
            x = deep_unwrap(x)
            return isinstance(x, tuple) and x and x[0] == 'call' and x[1] == 'std::iter::once' and deep_unwrap(x[2][0]) == ROOT

        def is_targets(x):
            cs_ = term_calls(x)
            names_ = [c[1].split('::')[-1] for c in cs_]
            clos_ = [z for c in cs_ for z in c[2] if isinstance(z, tuple) and z and z[0] == 'aggr' and z[1].startswith('closure:')]
            if not term_mentions(deep_unwrap(x), lambda z: z == EDGES) or 'map' not in names_ or any(n in names_ for n in ('rev', 'skip', 'filter', 'take', 'step_by', 'chain', 'once')) or len(clos_) != 1:
                return False
            cb_ = F.bodies.get(clos_[0][1][len('closure:'):])
            return cb_ is not None and deep_unwrap(F.prov(cb_).of_local(0)) == ('f', P2_, '1')
        for lab in ('Pre', 'Post'):
            a = arms.get(lab, {})
            if not a.get('push') and not a.get('app') and len(colls.get(lab, [])) == 1:
                cbi, ct = colls[lab][0]
                src = pv.of_operand(ct['args'][0])
                d = src
                while isinstance(d, tuple) and d and d[0] == 'v':
                    d = d[1]
                if not (isinstance(d, tuple) and d and d[0] == 'call' and d[1].endswith('Iterator::chain') and len(d[2]) == 2):
                    why.append('%s arm collects %s, expected root and edge targets chained' % (lab, pretty(src)))
                    continue
                first, second = d[2]
                want_first_root = lab == 'Pre'
                if want_first_root and not (is_root_once(first) and is_targets(second)):
                    why.append('Pre arm chains %s then %s, expected the root then the edge targets' % (pretty(first), pretty(second)))
                if not want_first_root and not (is_targets(first) and is_root_once(second)):
                    why.append('Post arm chains %s then %s, expected the edge targets then the root' % (pretty(first), pretty(second)))
                if deep_unwrap(pv.of_local(0)) != deep_unwrap(('call', ct['callee'] if False else callee_name(ct), tuple(pv.of_operand(x) for x in ct['args']), cbi)) and \
                        not term_mentions(deep_unwrap(pv.of_local(0)), lambda z: isinstance(z, tuple) and z and z[0] == 'call' and len(z) > 3 and z[3] == cbi):
                    why.append('%s arm: the collected list is not what is returned' % lab)
                continue
            if len(a.get('push', [])) != 1 or len(a.get('app', [])) != 1:
                why.append('%s arm: %d root pushes, %d appends' % (lab, len(a.get('push', [])), len(a.get('app', []))))
                continue
            (pb, pt), (ab, at) = a['push'][0], a['app'][0]
            if strip_payload(pv.of_operand(pt['args'][1])) != ROOT:
                why.append('%s arm pushes %s, not the root' % (lab, pretty(pv.of_operand(pt['args'][1]))))
            src = pv.of_operand(at['args'][1])
            cs = term_calls(src)
            names = [c[1].split('::')[-1] for c in cs]
            clos = [z for c in cs for z in c[2] if isinstance(z, tuple) and z and z[0] == 'aggr' and z[1].startswith('closure:')]
            if not term_mentions(deep_unwrap(src), lambda z: z == EDGES) or 'map' not in names or any(n in names for n in ('rev', 'skip', 'filter', 'take', 'step_by')) or len(clos) != 1:
                why.append('%s arm appends %s, expected the targets of the edges in order' % (lab, pretty(src)))
            else:
                cb = F.bodies.get(clos[0][1][len('closure:'):])
                if cb is None or deep_unwrap(F.prov(cb).of_local(0)) != ('f', P2_, '1'):
                    why.append('%s arm projects something else than the edge target' % lab)
            if lab == 'Pre' and not cfg.dominates(pb, ab):
                why.append('Pre arm appends the discovered nodes before the root')
            if lab == 'Post' and not cfg.dominates(ab, pb):
                why.append('Post arm pushes the root before the finished nodes')
        out.append(Obl('ORD2', q, b['span'], 'node list = root + targets of the edge-list search, root first (Pre) / last (Post)', not why, '; '.join(why) if why else 'derived from %s' % st['res'].split('::')[-1]))
    return out


def pfs_search(ctx, flavours):
    """Pfs::search = search_path().map(|p| p.last_node().unwrap().clone())"""
    F = ctx.F
    out = []
    for fl in flavours:
        b = F.find(fl, 'node::algo::pfs::Pfs::search')
        if b is None:
            out.append(Obl('PFS-SEARCH', fl + '::node::algo::pfs::Pfs::search', '-', 'present', False, 'anchor missing'))
            continue
        pv = F.prov(b)
        rt = pv.of_local(0)
        why = []
        ok = isinstance(rt, tuple) and rt[0] == 'call' and rt[1] == 'std::option::Option::map'
        if ok:
            src, clo = rt[2][0], rt[2][1]
            if not (isinstance(src, tuple) and src[0] == 'call' and src[1].endswith('::Pfs::search_path') and strip_payload(src[2][0]) == P1_):
                why.append('does not map the result of search_path(self)')
            if isinstance(clo, tuple) and clo[0] == 'aggr' and clo[1].startswith('closure:'):
                cb = F.bodies.get(clo[1][len('closure:'):])
                ct = deep_unwrap(F.prov(cb).of_local(0)) if cb else None
                if not (isinstance(ct, tuple) and ct[0] == 'call' and ct[1].endswith('::Path::last_node') and strip_payload(ct[2][0]) == P2_):
                    why.append('closure returns %s, not the last node of the path' % pretty(ct))
            else:
                why.append('no closure')
        else:
            # explicit forms: `let p = self.search_path()?; Some(p.last_node()..)`, match / if let
            alts_ = list(rt[1]) if isinstance(rt, tuple) and rt and rt[0] == 'join' else [rt]
            kinds = []
            for a_ in alts_:
                a0 = a_
                while isinstance(a0, tuple) and a0 and a0[0] == 'v':
                    a0 = a0[1]
                if isinstance(a0, tuple) and a0 and a0[0] == 'aggr' and a0[1].endswith('Option::None'):
                    kinds.append('none')
                elif isinstance(a0, tuple) and a0 and a0[0] == 'call' and a0[1].endswith('from_residual'):
                    kinds.append('none')
                elif isinstance(a0, tuple) and a0 and a0[0] == 'aggr' and a0[1].endswith('Option::Some') and a0[2]:
                    x_ = deep_unwrap(a0[2][0])
                    if isinstance(x_, tuple) and x_ and x_[0] == 'call' and x_[1].endswith('::Path::last_node') and isinstance(x_[2][0], tuple) and x_[2][0] and x_[2][0][0] == 'call' and \
                            x_[2][0][1].endswith('::Pfs::search_path') and deep_unwrap(x_[2][0][2][0]) == P1_:
                        kinds.append('last')
                    else:
                        kinds.append('other:' + pretty(x_))
                else:
                    kinds.append('other:' + pretty(a0))
            if not ('last' in kinds and all(k_ in ('last', 'none') for k_ in kinds)):
                why.append('result is %s' % pretty(rt))
        # Path::last_node = edges.last().map(|e| &e.1)
        lb = F.find(fl, 'node::algo::path::Path::last_node')
        if lb is None:
            why.append('Path::last_node missing')
        else:
            from .rules_bt import _canon_elem
            got = _canon_elem(F, F.prov(lb).of_local(0), fl + '::node::algo::path::')
            want = ('field', 'last', '1')
            if not (want in got and got <= {want, 'none'}):
                why.append('last_node is not the target of the last edge: %s' % sorted(map(str, got)))
        out.append(Obl('PFS-SEARCH', b['q'], b['span'], 'search = target node of search_path', not why, '; '.join(why) if why else 'ok'))
    return out
