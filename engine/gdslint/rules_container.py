"""C18: Graph containers.  MAP (delegation to the one HashMap field), VIEW (roots/leaves/orphans), DOT (exports)."""
import re
from .core import (Obl, calls_in, callee_name, pretty, strip_payload, unwrap_payload, deep_unwrap, term_calls, term_mentions, proj_field, expand_local, closure_result,
                   DIRECTED, UNDIRECTED)
from .kernels import key_of

P1_, P2_ = ('param', 1), ('param', 2)
MAPF = ('f', P1_, '0')
MAP_VOCAB = {'new', 'default', 'insert', 'get', 'contains', 'len', 'is_empty', 'remove', 'to_vec', 'iter', 'roots', 'leaves', 'orphans', 'to_dot', 'to_dot_with_attr', 'fmt_attr', 'scc', 'scc_ordering', 'index', 'sizeof'}
MAP_MUT = {'insert', 'remove', 'clear', 'retain', 'drain', 'entry', 'get_mut', 'iter_mut', 'values_mut', 'extend', 'remove_entry', 'try_insert', 'extract_if', 'shrink_to_fit'}


def _last(name):
    return name.split('::')[-1].rstrip('>')


def _graph_methods(F, fl):
    gp = fl + '::Graph'
    return {b['name']: b for q, b in F.bodies.items() if b['impl_self_q'] == gp and not b['impl_trait'] and b['kind'] != 'Closure'}


def _is_call(t, last, nargs=None):
    return isinstance(t, tuple) and t and t[0] == 'call' and _last(t[1]) == last and (nargs is None or len(t[2]) == nargs)


def map_rules(ctx, flavours):
    F = ctx.F
    out = []
    for fl in flavours:
        gp = fl + '::Graph'
        adt = F.adts.get(gp)
        if not adt:
            out.append(Obl('MAP', gp, '-', 'Graph present', False, 'anchor missing'))
            continue
        fs = adt['variants'][0]['fields']
        t = F.types[fs[0]['ty']] if fs else None
        ok = len(fs) == 1 and t['k'] == 'adt' and re.search(r'HashMap$', t['p']) and F.ty_has_adt(fs[0]['ty'], '^%s::node::Node$' % fl)
        out.append(Obl('MAP', gp, adt['span'], 'Graph has exactly one field: a hash map key -> Node', bool(ok), 'fields: ' + ', '.join('%s: %s' % (f['name'], F.types[f['ty']]['s']) for f in fs)))
        ms = _graph_methods(F, fl)

        def ret(b):
            # what the method computes, seen through straight-line helpers of the same container (e.g. get() = get_ref().cloned())
            return deep_unwrap(expand_local(F, F.prov(b).of_local(0), lambda q: F.bodies[q]['impl_self_q'] == gp and q != b['q']))

        def chk(name, pred, inst):
            b = ms.get(name)
            if b is None:
                out.append(Obl('MAP', '%s::%s' % (gp, name), '-', inst, False, 'anchor missing'))
                return
            t = ret(b)
            ok = bool(pred(t))
            out.append(Obl('MAP', b['q'], b['span'], inst, ok, 'returns ' + pretty(t)))
        chk('contains', lambda t: _is_call(t, 'contains_key', 2) and t[2][0] == MAPF and t[2][1] == P2_, 'contains(k) = map.contains_key(k)')
        chk('len', lambda t: _is_call(t, 'len', 1) and t[2][0] == MAPF, 'len() = map.len()')
        chk('is_empty', lambda t: _is_call(t, 'is_empty', 1) and t[2][0] == MAPF, 'is_empty() = map.is_empty()')
        def _get_ok(t):
            def lookup(x):
                return _is_call(x, 'get', 2) and x[2][0] == MAPF and x[2][1] == P2_
            if _is_call(t, 'cloned', 1) and lookup(t[2][0]):
                return True
            if _is_call(t, 'map', 2) and lookup(t[2][0]):
                return True
            # match form: Some(n) => Some(n.clone()), None => None
            if isinstance(t, tuple) and t and t[0] == 'join':
                somes = [x for x in t[1] if isinstance(x, tuple) and x[0] == 'aggr' and x[1].endswith('Option::Some')]
                nones = [x for x in t[1] if isinstance(x, tuple) and x[0] == 'aggr' and x[1].endswith('Option::None')]
                return len(somes) == 1 and len(somes) + len(nones) == len(t[1]) and lookup(deep_unwrap(somes[0][2][0]))
            return False
        chk('get', _get_ok, 'get(k) = clone of the handle stored under k (same allocation), None otherwise')
        chk('remove', lambda t: _is_call(t, 'remove', 2) and t[2][0] == MAPF and t[2][1] == P2_, 'remove(k) = map.remove(k)')
        chk('iter', lambda t: _is_call(t, 'iter', 1) and t[2][0] == MAPF, 'iter() = map.iter()')
        chk('to_vec', lambda t: _is_call(t, 'collect', 1) and _is_call(t[2][0], 'cloned', 1) and _is_call(t[2][0][2][0], 'values', 1) and t[2][0][2][0][2][0] == MAPF, 'to_vec() = map.values().cloned().collect()')
        # Index impls
        nidx = 0
        for q, b in sorted(F.bodies.items()):
            if b['impl_self_q'] == gp and b['impl_trait'] == 'std::ops::Index' and b['name'] == 'index':
                nidx += 1
                t = ret(b)
                ok = _is_call(t, 'index', 2) and t[2][0] == MAPF and t[2][1] == P2_
                # std's own definition of HashMap::index: get(k).expect(..)
                ok = ok or (_is_call(t, 'get', 2) and t[2][0] == MAPF and t[2][1] == P2_ and any(callee_name(ct).split('::')[-1] in ('expect', 'unwrap') for _, ct in calls_in(b)))
                out.append(Obl('MAP', q, b['span'], 'graph[k] = map[k]', bool(ok), 'returns ' + pretty(t)))
        if nidx == 0:
            out.append(Obl('MAP', gp, '-', 'Index impl present', False, 'no Index impl'))
        # insert
        b = ms.get('insert')
        if b is None:
            out.append(Obl('MAP', gp + '::insert', '-', 'insert', False, 'anchor missing'))
        else:
            pv, cfg = F.prov(b), F.cfg(b)
            why = []
            cks = [(bi, t) for bi, t in calls_in(b) if _last(callee_name(t)) == 'contains_key']
            own_contains = False
            if not cks:
                # the container's own contains() (decided above to be map.contains_key)
                cks = [(bi, t) for bi, t in calls_in(b) if t.get('local') and t.get('res') == gp + '::contains']
                own_contains = bool(cks)
            # accepted idiom: the membership test as a lookup, `match map.get(k) { Some(_) => .., None => .. }` / `.get(k).is_some()`
            via_get = False
            if not cks:
                cks = [(bi, t) for bi, t in calls_in(b) if _last(callee_name(t)) == 'get' and t['args'] and deep_unwrap(pv.of_operand(t['args'][0])) == MAPF]
                via_get = True
            ins = [(bi, t) for bi, t in calls_in(b) if _last(callee_name(t)) == 'insert']
            if len(cks) != 1 or len(ins) != 1:
                why.append('%d contains_key / %d insert calls' % (len(cks), len(ins)))
            else:
                cbi, ct = cks[0]
                ibi, it = ins[0]
                a = [deep_unwrap(pv.of_operand(x)) for x in ct['args']]
                if a != ([P1_, key_of(P2_)] if own_contains else [MAPF, key_of(P2_)]):
                    why.append('membership test on %s' % [pretty(x) for x in a])
                ia = [deep_unwrap(pv.of_operand(x)) for x in it['args']]
                if ia != [MAPF, key_of(P2_), P2_]:
                    why.append('inserts %s, expected (key(node), node)' % [pretty(x) for x in ia[1:]])
                if via_get:
                    from .core import outcome_edges
                    te, fe = outcome_edges(F, b, cbi)      # Some = present, None = absent
                else:
                    te, fe = cfg.bool_edges(ct['dst']['l'], ct['target'])
                if te is None:
                    why.append('membership test not branched on')
                else:
                    if not cfg.edge_dominates(fe[0], fe[1], ibi):
                        why.append('map.insert is not confined to the "key absent" branch (an existing node could be replaced)')
                    for bi, bb in enumerate(b['blocks']):
                        if bb['cleanup'] or bi not in cfg.reach:
                            continue
                        for s in bb['stmts']:
                            if s['k'] == 'assign' and s['dst']['l'] == 0 and s['rv']['k'] == 'use' and s['rv']['ops'][0]['k'] == 'const':
                                v = s['rv']['ops'][0]['v']
                                if v == 'false' and not cfg.edge_dominates(te[0], te[1], bi):
                                    why.append('returns false on the "absent" branch')
                                if v == 'true' and not cfg.edge_dominates(fe[0], fe[1], bi):
                                    why.append('returns true on the "present" branch')
                            elif s['k'] == 'assign' and s['dst']['l'] == 0 and not s['dst']['p']:
                                # the result is the outcome of the membership test and nothing else (not pointer identity of the
                                # argument with the member, not what map.insert returned, ..)
                                rt_ = deep_unwrap(pv.of_operand(s['rv']['ops'][0])) if s['rv'].get('ops') else None
                                me_ = deep_unwrap(('call', callee_name(ct), tuple(pv.of_operand(x) for x in ct['args']), cbi))
                                neg_ = isinstance(rt_, tuple) and rt_ and rt_[0] == 'unop' and rt_[1] == 'Not' and deep_unwrap(rt_[2]) == me_
                                if not (neg_ and not via_get):
                                    why.append('the result is computed (%s), not the constant of its branch' % pretty(rt_)[:60])
                        tt_ = bb['term']
                        if tt_['k'] == 'call' and tt_['dst']['l'] == 0 and not tt_['dst']['p']:
                            why.append('the result is what %s returns, not the outcome of the membership test' % callee_name(tt_).split('::')[-1])
            out.append(Obl('MAP', b['q'], b['span'], 'insert(node): map.insert(key, node) only when the key is absent; returns false/true accordingly', not why, '; '.join(why) if why else 'ok'))
        # frame: only insert and remove mutate the map
        for name, b in sorted(ms.items()):
            pv = F.prov(b)
            for bi, t in calls_in(b):
                if not t['args']:
                    continue
                recv = deep_unwrap(pv.of_operand(t['args'][0]))
                if recv == MAPF and _last(callee_name(t)) in MAP_MUT:
                    ok = (name, _last(callee_name(t))) in (('insert', 'insert'), ('remove', 'remove'))
                    if not ok and name not in MAP_VOCAB and F.fns.get(b['q'], {}).get('vis') == 'Public' and \
                            F.types[b['locals'][1]]['k'] == 'ref' and F.types[b['locals'][1]].get('m'):
                        # an additional public `&mut self` operation (clear, retain, ..): not one of the operations the property
                        # speaks about; listed, not judged
                        ctx.cache.setdefault('evidence_extra', {}).setdefault('C18', {}).setdefault('additional_member_set_operations', []).append('%s (%s)' % (b['q'], _last(callee_name(t))))
                        continue
                    out.append(Obl('MAP', b['q'], t['sp'], 'map mutation %s' % _last(callee_name(t)), ok, 'allowed' if ok else 'member set changed outside insert/remove'))
            # the map field is never replaced
            for bb in b['blocks']:
                for s in bb['stmts']:
                    if s['k'] == 'assign' and s['dst']['p'] and s['dst']['p'][-1].startswith('.0:') and s['dst']['p'][-1].endswith('@' + gp):
                        out.append(Obl('MAP', b['q'], s['sp'], 'map field assignment', False, 'the member map is replaced'))
        # edge frame: a container stores handles; no container method adds or removes an edge of any node ("keeps the original",
        # "changes made through them are visible": the only changes are the caller's)
        from .rules_edge import mutator_reach
        reach_m, via = mutator_reach(ctx, fl)
        nfr = 0
        for q, b in sorted(F.bodies.items()):
            owner = F.bodies.get(re.sub(r'(::\{closure#\d+\})+$', '', q), b)
            if owner['impl_self_q'] != gp or (owner['impl_trait'] or '').startswith('serde::'):
                continue
            nfr += 1
            bad = q in reach_m
            chain = [q]
            while bad and chain[-1] in via and len(chain) < 8 and via[chain[-1]] not in chain:
                chain.append(via[chain[-1]])
            out.append(Obl('MAP-frame', q, b['span'], 'no edge is added or removed by a container method', not bad,
                           'ok' if not bad else 'reaches a list mutator: ' + ' -> '.join(chain)))
        if nfr == 0:
            out.append(Obl('MAP-frame', gp, '-', 'container methods present', False, 'anchor missing'))
    return out


VIEWS = {'roots': 'is_root', 'leaves': 'is_leaf', 'orphans': 'is_orphan'}


def _view_loop_form(F, b, fl, predname):
    """`let mut v = Vec::new(); for n in map.values() { if n.pred() { v.push(n.clone()) } } v` -- returns the list of objections (empty = ok)"""
    from .core import outcome_edges
    pv, cfg = F.prov(b), F.cfg(b)
    why = []
    nexts = [(bi, t) for bi, t in calls_in(b) if callee_name(t).endswith('::next') and t['args']]
    srcs = []
    for bi, t in nexts:
        it = deep_unwrap(pv.of_operand(t['args'][0]))
        if _is_call(it, 'values', 1) and deep_unwrap(it[2][0]) == MAPF:
            srcs.append((bi, t, 'values'))
        elif (_is_call(it, 'iter', 1) or _is_call(it, 'into_iter', 1)) and deep_unwrap(it[2][0]) == MAPF:
            srcs.append((bi, t, 'iter'))
    if len(nexts) != 1 or len(srcs) != 1:
        return ['%d iterator steps, %d of them over the member map' % (len(nexts), len(srcs))]
    nbi, nt, kind = srcs[0]
    se, ne = outcome_edges(F, b, nbi)
    if se is None:
        return ['the step over the members is not branched on']

    def is_item(x):
        x = deep_unwrap(x)
        if kind == 'iter' and isinstance(x, tuple) and x and x[0] == 'f' and x[2] == '1':
            x = deep_unwrap(x[1])
        return isinstance(x, tuple) and x and x[0] == 'call' and x[1].endswith('::next') and len(x) > 3 and x[3] == nbi
    preds = [(bi, t) for bi, t in calls_in(b) if t.get('local') and t.get('res', '').startswith(fl + '::node::Node::is_')]
    if len(preds) != 1 or preds[0][1]['res'] != '%s::node::Node::%s' % (fl, predname) or not is_item(pv.of_operand(preds[0][1]['args'][0])):
        return ['predicate calls: %s, expected one %s(member)' % ([t['res'].split('::')[-1] for _, t in preds], predname)]
    pbi, pt = preds[0]
    te, fe = cfg.bool_edges(pt['dst']['l'], pt['target'])
    if te is None:
        return ['the predicate is not branched on']
    pushes = [(bi, t) for bi, t in calls_in(b) if _last(callee_name(t)) in ('push', 'push_back', 'insert', 'extend', 'append', 'push_front')]
    if len(pushes) != 1 or _last(callee_name(pushes[0][1])) != 'push':
        return ['%d insertions into the result' % len(pushes)]
    ubi, ut = pushes[0]
    if not is_item(pv.of_operand(ut['args'][1])):
        why.append('pushes %s, not the member' % pretty(pv.of_operand(ut['args'][1])))
    if not cfg.edge_dominates(te[0], te[1], ubi):
        why.append('the push is not confined to the branch where %s holds' % predname)
    rv = deep_unwrap(pv.of_local(0))
    vec = deep_unwrap(pv.of_operand(ut['args'][0]))
    if not (isinstance(rv, tuple) and rv and rv[0] == 'call' and _last(rv[1]) in ('new', 'with_capacity') and rv == vec):
        why.append('returns %s, not the vector it fills' % pretty(rv))
    # no early exit from the loop other than exhaustion
    for bi2, bb in enumerate(b['blocks']):
        if bb['cleanup'] or bi2 not in cfg.reach:
            continue
        if bb['term']['k'] == 'return' and not (ne and cfg.edge_dominates(ne[0], ne[1], bi2)):
            why.append('returns before the members are exhausted')
    return why


def view_rules(ctx, flavours):
    F = ctx.F
    out = []
    for fl in flavours:
        ms = _graph_methods(F, fl)
        want = VIEWS if fl in DIRECTED else {'orphans': 'is_orphan'}
        for name, predname in sorted(want.items()):
            b = ms.get(name)
            if b is None:
                out.append(Obl('VIEW', '%s::Graph::%s' % (fl, name), '-', name, False, 'anchor missing'))
                continue
            t = deep_unwrap(expand_local(F, F.prov(b).of_local(0), lambda q: F.bodies[q]['impl_self_q'] == fl + '::Graph' and q != b['q']))
            why = []
            ok = _is_call(t, 'collect', 1) and _is_call(t[2][0], 'cloned', 1) and _is_call(t[2][0][2][0], 'filter', 2) and _is_call(t[2][0][2][0][2][0], 'values', 1) and t[2][0][2][0][2][0][2][0] == MAPF
            if not ok:
                lw = _view_loop_form(F, b, fl, predname)
                if lw:
                    why.append('neither map.values().filter(..).cloned().collect() (%s) nor the loop form (%s)' % (pretty(t)[:120], '; '.join(lw)))
            else:
                clo = t[2][0][2][0][2][1]
                ct = closure_result(F, clo, [P2_])
                if ct is None:
                    why.append('filter predicate is not a closure')
                else:
                    ct = unwrap_payload(ct)
                    okc = isinstance(ct, tuple) and ct[0] == 'call' and ct[1] == '%s::node::Node::%s' % (fl, predname) and deep_unwrap(ct[2][0]) == P2_
                    if not okc:
                        why.append('predicate is %s, expected %s(node) un-negated' % (pretty(ct), predname))
            out.append(Obl('VIEW', b['q'], b['span'], '%s() = members filtered by %s' % (name, predname), not why, '; '.join(why) if why else 'ok'))
    return out


def _emits(F, b):
    """formatted writes: [(block, [display arg terms], template const)]"""
    pv = F.prov(b)
    out = []
    for bi, t in calls_in(b):
        name = callee_name(t)
        if name in ('std::fmt::Write::write_fmt', '<std::string::String as std::fmt::Write>::write_fmt') or _last(name) == 'push_str':
            arg = pv.of_operand(t['args'][1])
            news = [c for c in term_calls(arg) if c[1] in ('std::fmt::Arguments::new', 'std::fmt::Arguments::new_const', 'core::fmt::Arguments::new')]
            if not news:
                continue
            a = news[0]
            disp = []
            tpl = a[2][0][1] if a[2] and isinstance(a[2][0], tuple) and a[2][0][0] == 'const' else ''
            if len(a[2]) > 1:
                arr = a[2][1]
                if isinstance(arr, tuple) and arr[0] == 'aggr':
                    for x in arr[2]:
                        if isinstance(x, tuple) and x[0] == 'call' and x[1].startswith('core::fmt::rt::Argument::new_'):
                            disp.append(deep_unwrap(x[2][0]))
                        else:
                            disp.append(deep_unwrap(x))
            out.append((bi, disp, tpl))
    return out


def dot_rules(ctx, flavours):
    F, G = ctx.F, ctx.G()
    out = []
    for fl in flavours:
        ms = _graph_methods(F, fl)
        arrow = '->'  # the property states 'u -> v' for all four flavours
        exports = [b for n, b in sorted(ms.items()) if n.startswith('to_dot')]
        if not exports:
            out.append(Obl('DOT', fl + '::Graph', '-', 'DOT export present', False, 'anchor missing'))
        for b in exports:
            pv, cfg = F.prov(b), F.cfg(b)
            loops = cfg.loops()
            why = []
            # driving next() per loop
            nexts = {}
            for bi, t in calls_in(b, lambda t: t['callee'] == 'std::iter::Iterator::next'):
                nexts[bi] = t
            loop_of_next = {}
            for h, body in loops.items():
                ns = [bi for bi in nexts if bi in body]
                # the driving next() is the one that dominates all blocks of the loop after the header
                drv = [bi for bi in ns if all(cfg.dominates(bi, x) or x == h or cfg.dominates(x, bi) for x in body)]
                drv = [c for c in drv if all(cfg.dominates(c, o) for o in drv)]
                if drv:
                    loop_of_next[drv[0]] = body

            def nest(bi):
                return tuple(sorted(n for n, body in loop_of_next.items() if bi in body))

            def item_of(nbi):
                t = nexts[nbi]
                return deep_unwrap(proj_field(('v', ('call', callee_name(t), tuple(pv.of_operand(a) for a in t['args']), nbi), 'Some#1'), '0'))
            # member loops: next over iter(P1)/map iter; edge loops: next over a node iterator built from MEMBER.1
            member_loops, edge_loops = {}, {}

            def node_of(M):
                return M[1] if isinstance(M, tuple) and M and M[0] == 'NODEONLY' else ('f', M, '1')

            def key_terms(M):
                if isinstance(M, tuple) and M and M[0] == 'NODEONLY':
                    return (key_of(M[1]),)
                return (('f', M, '0'), key_of(('f', M, '1')))
            for nbi, t in nexts.items():
                it = deep_unwrap(pv.of_operand(t['args'][0]))
                if _is_call(it, 'iter', 1) and it[2][0] in (P1_, MAPF):
                    member_loops[nbi] = item_of(nbi)
                elif _is_call(it, 'values', 1) and it[2][0] == MAPF:
                    # `for node in self.nodes.values()`: the item is the member node itself; present it as a (key(node), node) pair
                    member_loops[nbi] = ('NODEONLY', item_of(nbi))
            for nbi, t in nexts.items():
                it = deep_unwrap(pv.of_operand(t['args'][0]))
                if isinstance(it, tuple) and it[0] == 'call' and re.search(r'::node::Node::(iter_out|iter)$|<&%s::node::Node as std::iter::IntoIterator>::into_iter$' % fl, it[1]):
                    for mb, M in member_loops.items():
                        if it[2] and it[2][0] == node_of(M):
                            edge_loops[nbi] = (mb, item_of(nbi))
            if not member_loops:
                why.append('no loop over the members')
            if not edge_loops:
                why.append('no loop over the edges of each member')
            cbs = [(bi, t) for bi, t in calls_in(b) if G.user_kind(t) == 'callback']

            def from_callback(term):
                return term_mentions(term, lambda z: isinstance(z, tuple) and z and z[0] == 'call' and (z[1] in ('std::ops::Fn::call', 'std::ops::FnMut::call_mut') or z[1].endswith('::fmt_attr')))
            member_emits, edge_emits = [], []
            for bi, disp, tpl in _emits(F, b):
                if not disp:
                    continue
                if all(from_callback(d) for d in disp):
                    continue  # attribute text supplied by the callbacks
                ns = nest(bi)
                done = False
                for mb, M in member_loops.items():
                    if ns == (mb,) and len(disp) == 1 and disp[0] in key_terms(M):
                        member_emits.append(bi)
                        done = True
                for eb, (mb, E) in edge_loops.items():
                    M = member_loops[mb]
                    if ns == tuple(sorted((mb, eb))) and len(disp) == 2:
                        u_ok = disp[0] in key_terms(M) + (key_of(('f', E, '0')),)
                        v_ok = disp[1] == key_of(('f', E, '1'))
                        if u_ok and v_ok:
                            if arrow not in tpl:
                                why.append('edge statement template %s lacks "%s"' % (tpl, arrow))
                            edge_emits.append(bi)
                            done = True
                        elif disp[0] == key_of(('f', E, '1')) and disp[1] in key_terms(M)[:1] + (key_of(('f', E, '0')),):
                            why.append('edge statement prints (target, source)')
                            done = True
                if not done:
                    why.append('unexpected formatted write at %s with arguments %s in loop nest %s' % (F.where(b, bi), [pretty(d) for d in disp], ns))
            if len(member_emits) != 1:
                why.append('%d node statements per member (expected 1)' % len(member_emits))
            if len(edge_emits) != 1:
                why.append('%d edge statements per edge (expected 1)' % len(edge_emits))
            # ... for EVERY member / iterated edge: from the Some edge of the loop's next() no way back to next() around the statement
            from .core import outcome_edges as _oe_dot
            for loops_, emits_, what_ in ((member_loops, member_emits, 'member'), (edge_loops, edge_emits, 'iterated edge')):
                for nbi_ in loops_:
                    se_, ne_ = _oe_dot(F, b, nbi_)
                    mine = [e_ for e_ in emits_ if nbi_ in nest(e_)]
                    if se_ is None or not mine:
                        continue
                    if se_[1] not in mine and cfg.path_exists(se_[1], nbi_, avoiding=set(mine)):
                        why.append('some %ss get no statement (a path from next() back to next() avoids the write)' % what_)
            # loops run to exhaustion
            for h, body in loops.items():
                for x in body:
                    for y in cfg.succ[x]:
                        if y in body:
                            continue
                        t = b['blocks'][x]['term']
                        okx = False
                        if t['k'] == 'switch':
                            term = pv.of_operand(t['op'])
                            if isinstance(term, tuple) and term[0] == 'discr' and isinstance(term[1], tuple) and term[1][0] == 'call' and term[1][1].endswith('::next'):
                                okx = [v for v, tg in t['targets'] if tg == y] == [0] or (y == t['otherwise'] and [v for v, _ in t['targets']] == [1])
                        if not okx and y in cfg.can_return():
                            why.append('loop exit bb%d->bb%d is not iterator exhaustion' % (x, y))
            # callbacks (attr export)
            if b['argc'] > 1:
                roles = {}
                for bi, t in cbs:
                    fobj = strip_payload(pv.of_operand(t['args'][0]))
                    args = deep_unwrap(pv.of_operand(t['args'][1])) if len(t['args']) > 1 else None
                    roles.setdefault(fobj, []).append((bi, args))
                for p in range(2, b['argc'] + 1):
                    calls = roles.get(('param', p), [])
                    if len(calls) != 1:
                        why.append('attribute callback P%d is called at %d sites (expected 1)' % (p, len(calls)))
                        continue
                    bi, args = calls[0]
                    ns = nest(bi)
                    at = args[2] if isinstance(args, tuple) and args[0] == 'aggr' else ()
                    # what the callback supplies reaches the text: some formatted write takes a value derived from this call
                    used = any(disp and any(term_mentions(d, lambda z: isinstance(z, tuple) and z and z[0] == 'call' and len(z) > 3 and z[3] == bi) for d in disp)
                               for _, disp, _ in _emits(F, b))
                    if not used:
                        # ... or it is handed to a helper of the container together with the text being built
                        for hbi, ht in calls_in(b, lambda t_: t_.get('local') and t_.get('res') in F.bodies):
                            has_text = any(a_.get('k') in ('move', 'copy') and F.types[b['locals'][a_['pl']['l']]]['k'] == 'ref' and
                                           'std::string::String' in F.types[b['locals'][a_['pl']['l']]].get('s', '') for a_ in ht['args'])
                            takes_cb = any(term_mentions(pv.of_operand(a_), lambda z: isinstance(z, tuple) and z and z[0] == 'call' and len(z) > 3 and z[3] == bi) for a_ in ht['args'])
                            if has_text and takes_cb:
                                used = True
                    if not used:
                        why.append('the attributes supplied by callback P%d are not written' % p)
                    if len(at) == 1 and at[0] == P1_:
                        if ns:
                            why.append('graph attribute callback runs inside a loop')
                    elif len(at) == 1:
                        if not any(ns == (mb,) and at[0] == node_of(M) for mb, M in member_loops.items()):
                            why.append('node attribute callback is not called once per member with the member node')
                        elif not any(nest(e) == ns for e in member_emits):
                            why.append('node attributes are not written with the node statement')
                    elif len(at) == 3:
                        if not any(ns == tuple(sorted((mb, eb))) and list(at) == [('f', E, '0'), ('f', E, '1'), ('f', E, '2')] for eb, (mb, E) in edge_loops.items()):
                            why.append('edge attribute callback is not called once per edge with (u, v, e)')
                        elif not any(nest(e) == ns for e in edge_emits):
                            why.append('edge attributes are not written with the edge statement')
                    else:
                        why.append('callback P%d called with %s' % (p, pretty(args)))
            out.append(Obl('DOT', b['q'], b['span'], 'one node statement per member, one "u %s v" statement per iterated edge, callbacks once each' % arrow, not why, '; '.join(why) if why else 'ok'))
        # keys and attribute texts are written as they are (Display), in the exporters and the attribute helper alike
        helpers = [b for n, b in sorted(ms.items()) if n.startswith('to_dot') or n == 'fmt_attr']
        for b in helpers:
            odd = []
            n = 0
            for bi, t in calls_in(b):
                nm = callee_name(t)
                if nm.startswith('core::fmt::rt::Argument::new_'):
                    n += 1
                    if not nm.endswith('::new_display'):
                        odd.append('%s@%s' % (nm.split('::')[-1], t['sp']))
            # ... and nothing in the exporter (closures included) rewrites text: no str / String / char transformer is called
            TEXT_OK = {'as_str', 'clone', 'to_string', 'to_owned', 'from', 'new', 'push', 'push_str', 'as_ref', 'deref', 'borrow', 'len', 'is_empty', 'with_capacity',
                       'write_str', 'write_fmt', 'write_char', 'fmt', 'default', 'into', 'as_bytes', 'eq', 'ne', 'reserve', 'capacity'}
            for q2, b2 in sorted(F.bodies.items()):
                if q2 != b['q'] and not q2.startswith(b['q'] + '::{closure'):
                    continue
                for bi2, t2 in calls_in(b2):
                    nm2 = callee_name(t2)
                    if re.match(r'^(std::|core::|alloc::)?(str::|string::String::|char::|std::str::|std::char::|std::string::String::|std::ascii::)', nm2) and _last(nm2) not in TEXT_OK:
                        odd.append('%s@%s' % (nm2, t2['sp']))
            for bi, disp, tpl in _emits(F, b):
                dt = _decode_template(tpl)
                if '{:#opts' in dt or '{?}' in dt:
                    odd.append('placeholder with width / precision / fill / flags in %r@%s' % (dt[:40], F.where(b, bi)))
            if n:
                out.append(Obl('DOT-fmt', b['q'], b['span'], 'all %d formatted values use plain Display placeholders (written as supplied)' % n, not odd, 'ok' if not odd else 'formatted with ' + ', '.join(odd)))
    return out


# ---------------------------------------------------------------------------------------------------------------------
# DOT-skel: the literal text of an exporter (header, per-statement pieces, separators, footer), concatenated per loop nest in
# execution order with `{}` for formatted values, is the same in every flavour that has the exporter.  Whether a piece is
# written with push / push_str / format! / write! and how the pieces are split does not matter; dropping a separator or the
# closing brace in one copy does.
def _decode_template(v):
    import ast
    try:
        raw = ast.literal_eval(v) if isinstance(v, str) and v[:2] in ('b"', "b'") else None
    except Exception:
        raw = None
    if raw is None:
        return str(v)
    out, i = [], 0
    while i < len(raw):
        c = raw[i]
        i += 1
        if c == 0:
            break
        if c < 0x80:
            out.append(raw[i:i + c].decode('utf-8', 'replace'))
            i += c
        elif c == 0x80 and i + 2 <= len(raw):
            n = raw[i] | (raw[i + 1] << 8)
            i += 2
            out.append(raw[i:i + n].decode('utf-8', 'replace'))
            i += n
        elif c >= 0xc0:
            # placeholder; low bits: 1 = flags/fill (4 bytes follow), 2 = width (2 bytes), 4 = precision (2 bytes), 8 = explicit
            # argument index (2 bytes).  Anything but the index changes how the value is rendered (padding, truncation, sign).
            opts = c & 0x3f
            i += (4 if opts & 1 else 0) + (2 if opts & 2 else 0) + (2 if opts & 4 else 0) + (2 if opts & 8 else 0)
            out.append('{}' if not (opts & 0x37) else '{:#opts%d}' % (opts & 0x37))
        else:
            out.append('{?}')
    return ''.join(out)


def _const_text(v):
    import ast
    v = str(v)
    try:
        if v[:1] in ('"', "'"):
            return ast.literal_eval(v)
    except Exception:
        pass
    return v


def dot_skeleton(F, b):
    pv, cfg = F.prov(b), F.cfg(b)
    loops = cfg.loops()
    sites = []
    for bi, t in calls_in(b):
        name = callee_name(t)
        if name in ('std::string::String::push', 'std::string::String::push_str') and len(t['args']) == 2:
            v = strip_payload(pv.of_operand(t['args'][1]))
            if isinstance(v, tuple) and v and v[0] == 'const':
                sites.append((bi, _const_text(v[1])))
        elif name in ('<std::string::String as std::convert::From<&str>>::from', 'std::convert::From::from', 'std::string::ToString::to_string', 'std::borrow::ToOwned::to_owned',
                      '<str as std::string::ToString>::to_string', '<str as std::borrow::ToOwned>::to_owned') and t['args'] and \
                F.types[b['locals'][t['dst']['l']]].get('p') == 'std::string::String':
            v = strip_payload(pv.of_operand(t['args'][0]))
            if isinstance(v, tuple) and v and v[0] == 'const':
                sites.append((bi, _const_text(v[1])))
        elif t.get('local') and t.get('res') in F.bodies and any(a.get('k') in ('move', 'copy') and 'std::string::String' in F.types[b['locals'][a['pl']['l']]].get('s', '') and
                                                                 F.types[b['locals'][a['pl']['l']]]['k'] == 'ref' for a in t['args']):
            sites.append((bi, '{}'))     # a helper that appends into the text being built
    for bi, disp, tpl in _emits(F, b):
        sites.append((bi, _decode_template(tpl)))
    # execution order: reverse post-order of the CFG (back edges ignored)
    order, seen_ = [], set()

    def dfs(x):
        seen_.add(x)
        for y in reversed(cfg.succ[x]):
            if y not in seen_:
                dfs(y)
        order.append(x)
    import sys
    sys.setrecursionlimit(10000)
    dfs(0)
    rpo = {x: i for i, x in enumerate(reversed(order))}
    groups = {}
    for bi, text in sites:
        nest = tuple(sorted(h for h, body in loops.items() if bi in body))
        groups.setdefault(nest, []).append((rpo.get(bi, 10 ** 6), bi, text))
    out = []
    for nest, items in sorted(groups.items(), key=lambda kv: min(x[:2] for x in kv[1])):
        txt = ''.join(x[2] for x in sorted(items))
        txt = re.sub(r' *\{\} *', '{}', txt)          # how a formatted value is padded from its neighbours may live in a helper
        txt = re.sub(r'(\{\})+', '{}', txt)
        out.append((len(nest), txt))
    return tuple(out)


def dot_skel(ctx, flavours):
    F = ctx.F
    out = []
    by_name = {}
    for fl in flavours:
        for n, b in sorted(_graph_methods(F, fl).items()):
            if n.startswith('to_dot') or n == 'fmt_attr':
                by_name.setdefault(n, {})[fl] = b
    for n, m in sorted(by_name.items()):
        sk = {fl: dot_skeleton(F, b) for fl, b in m.items()}
        vals = list(sk.values())
        common = max(set(vals), key=vals.count)
        for fl, b in sorted(m.items()):
            ok = sk[fl] == common and len(m) > 1 or len(m) == 1
            out.append(Obl('DOT-skel', b['q'], b['span'], 'literal text of %s (per loop nest, in order) agrees with the other flavours (%d copies)' % (n, len(m)), ok,
                           'skeleton %s' % (list(sk[fl]),) if ok else 'this copy writes %s, the others %s' % (list(sk[fl]), list(common))))
    return out
