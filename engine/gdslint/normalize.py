"""Normalisation of functional-style iteration in traversal kernels into the loop form the role extraction understands.

A kernel may be written with iterator adaptors and consumers instead of `for` + `if`:

    for e in it.filter(|e| p(e)) { B }              ==  for e in it { if p(&e) { B } }
    for y in it.filter_map(|e| f(e)) { B }          ==  for e in it { if let Some(y) = f(e) { B } }
    for y in it.map(|e| g(e)) { B }                 ==  for e in it { let y = g(e); B }
    while let Some(e) = it.find(|e| p(e)) { B }     ==  the filter form
    it.any(|e| c(e)) / all / find_map / try_for_each / for_each      ==  loop { match it.next() { None => break R0, Some(e) => .. c(e) .. } }
    b.then(|| x) / b.then_some(x)                   ==  if b { Some(x) } else { None }
    r.is_break() / is_continue() / is_some() / is_none() / is_ok() / is_err()   ==  a switch on the discriminant of r

Each of these is rewritten *on the MIR facts* into exactly that form: the closure body is spliced in at the place where the
adaptor / consumer would call it (inline.inline_call), the adaptor value becomes the iterator it wraps, and the result is a
body with explicit `next()` on the node iterator, an explicit call of the filter callback and explicit branches.  A final
jump-threading pass routes constant closure results (`return false`, `ControlFlow::Break(())`, `None`) directly to the
branch they select, so that dominance queries see the same shape as for a hand-written loop.

Nothing is rewritten that changes which items are seen or in which order: take_while, skip, rev, step_by, chain, zip,
peekable, ... stay calls, and the role extraction fails closed on them as before.
"""
import copy, re, re
from .core import calls_in
from .inline import inline_call, _assign

ADAPTORS = {'std::iter::Iterator::filter': 'filter', 'std::iter::Iterator::filter_map': 'filter_map', 'std::iter::Iterator::map': 'map'}
CONSUMERS = {'std::iter::Iterator::find': 'find', 'std::iter::Iterator::any': 'any', 'std::iter::Iterator::all': 'all',
             'std::iter::Iterator::find_map': 'find_map', 'std::iter::Iterator::try_for_each': 'try_for_each', 'std::iter::Iterator::for_each': 'for_each'}
DISCR_PREDS = {
    'std::ops::ControlFlow::is_break': ('std::ops::ControlFlow', ['Continue', 'Break'], 1),
    'std::ops::ControlFlow::is_continue': ('std::ops::ControlFlow', ['Continue', 'Break'], 0),
    'std::option::Option::is_some': ('std::option::Option', ['None', 'Some'], 1),
    'std::option::Option::is_none': ('std::option::Option', ['None', 'Some'], 0),
    'std::result::Result::is_ok': ('std::result::Result', ['Ok', 'Err'], 0),
    'std::result::Result::is_err': ('std::result::Result', ['Ok', 'Err'], 1),
}
VARIANT_IDX = {'std::option::Option::None': 0, 'std::option::Option::Some': 1, 'std::result::Result::Ok': 0, 'std::result::Result::Err': 1,
               'std::ops::ControlFlow::Continue': 0, 'std::ops::ControlFlow::Break': 1}


def _ty(F, pred, make=None):
    for i, t in enumerate(F.types):
        if pred(t):
            return i
    if make is None:
        return None
    F.types.append(make)
    return len(F.types) - 1


def _option_of(F, inner):
    return _ty(F, lambda t: t['k'] == 'adt' and t.get('p') == 'std::option::Option' and t.get('a') == [inner],
               {'k': 'adt', 'p': 'std::option::Option', 'a': [inner], 'local': False, 's': 'std::option::Option<%s>' % F.types[inner].get('s', '?')})


def _closure_of(F, body, op):
    if op.get('k') not in ('move', 'copy') or op['pl']['p']:
        return None
    ty = F.types[body['locals'][op['pl']['l']]]
    if ty['k'] == 'closure' and ty['p'] in F.bodies:
        return ty['p']
    return None


class _B:
    """small builder over a body being rewritten"""
    def __init__(self, F, nb):
        self.F, self.nb = F, nb

    def local(self, ty):
        self.nb['locals'].append(ty)
        return len(self.nb['locals']) - 1

    def block(self, stmts, term):
        self.nb['blocks'].append({'cleanup': False, 'stmts': stmts, 'term': term})
        return len(self.nb['blocks']) - 1

    def reserve(self):
        return self.block([], {'k': 'unreachable', 'sp': '', 'exp': ''})

    def set(self, bi, stmts, term):
        self.nb['blocks'][bi]['stmts'] = stmts
        self.nb['blocks'][bi]['term'] = term


def _goto(t, sp, ex=''):
    return {'k': 'goto', 'target': t, 'sp': sp, 'exp': ex}


def _switch(l, targets, otherwise, sp, ex=''):
    return {'k': 'switch', 'op': {'k': 'move', 'pl': {'l': l, 'p': []}}, 'targets': targets, 'otherwise': otherwise, 'sp': sp, 'exp': ex}


def _discr(dst, src, adt, variants, sp, ex=''):
    return _assign(dst, {'k': 'discr', 'pl': {'l': src, 'p': []}, 'adt': adt, 'variants': variants}, sp, ex)


def _mv(l, p=None):
    return {'k': 'move', 'pl': {'l': l, 'p': p or []}}


SOME_P = ['as Some#1', '.0:0@std::option::Option']
BREAK_P = ['as Break#1', '.0:0@std::ops::ControlFlow']


def _some_of(dst, src, sp, ex):
    """dst = Some(payload of src): src is known to be Some here, and saying so keeps the variant visible to the threading pass"""
    return _assign(dst, {'k': 'aggr', 'ak': 'adt:std::option::Option::Some', 'ops': [_mv(src, list(SOME_P))]}, sp, ex)


def _call_closure(bld, cq, P, args, dst, target, sp, ex):
    """block calling closure body cq with environment local P (by &mut) and argument operands; returns the block index"""
    F, nb = bld.F, bld.nb
    clo = F.bodies[cq]
    pr = bld.local(clo['locals'][1])
    envt = F.types[clo['locals'][1]]
    first = _assign(pr, {'k': 'ref', 'mut': True, 'pl': {'l': P, 'p': []}}, sp, ex) if envt['k'] == 'ref' else _assign(pr, {'k': 'use', 'ops': [_mv(P)]}, sp, ex)
    bi = bld.block([first],
                   {'k': 'call', 'callee': cq, 'res': cq, 'rk': 'item', 'local': True, 'selfk': 'concrete', 'gargs': [],
                    'args': [_mv(pr)] + args, 'dst': {'l': dst, 'p': []}, 'target': target, 'sp': sp, 'exp': ex})
    return bi


def _next_targets(nb, T, R):
    """(some_target, none_target, stmts of T) when block T only switches on the discriminant of R, else (None, None, [])"""
    tb = nb['blocks'][T]
    dl = None
    for s in tb['stmts']:
        if s['k'] == 'assign' and s['rv']['k'] == 'discr' and s['rv']['pl'] == {'l': R, 'p': []} and not s['dst']['p']:
            dl = s['dst']['l']
    if dl is not None and tb['term']['k'] == 'switch' and tb['term']['op'].get('pl') == {'l': dl, 'p': []} and \
            all(s['k'] in ('live', 'dead') or (s['k'] == 'assign' and s['dst']['l'] == dl) for s in tb['stmts']):
        tg = dict((v, x) for v, x in tb['term']['targets'])
        return tg.get(1, tb['term']['otherwise']), tg.get(0, tb['term']['otherwise']), copy.deepcopy(tb['stmts'])
    return None, None, []


def _retype(F, nb, old_ty, new_ty):
    refs = {}
    inner = F.types[new_ty]
    for i, ty in enumerate(nb['locals']):
        if ty == old_ty:
            nb['locals'][i] = new_ty
        else:
            tt = F.types[ty]
            if tt['k'] == 'ref' and tt.get('a') == [old_ty]:
                key = bool(tt.get('m'))
                if key not in refs:
                    refs[key] = _ty(F, lambda t: t['k'] == 'ref' and bool(t.get('m')) == key and t.get('a') == [new_ty],
                                    {'k': 'ref', 'm': key, 'a': [new_ty], 's': ('&mut ' if key else '&') + inner.get('s', '?')})
                nb['locals'][i] = refs[key]


def _adaptor(F, nb, bi, t, kind, cq):
    """X = A.filter/filter_map/map(C): X becomes A, C is kept in P, and every next() on X's type is expanded"""
    bld = _B(F, nb)
    clo = F.bodies[cq]
    A, C = t['args']
    ad_ty = nb['locals'][t['dst']['l']]
    inner_ty = t['gargs'][0]
    inner = F.types[inner_ty]
    sp, ex = t['sp'], t.get('exp', '')
    P = bld.local(nb['locals'][C['pl']['l']])
    blk = nb['blocks'][bi]
    blk['stmts'] = blk['stmts'] + [_assign(t['dst']['l'], {'k': 'use', 'ops': [A]}, sp, ex), _assign(P, {'k': 'use', 'ops': [C]}, sp, ex)]
    blk['term'] = _goto(t['target'], sp, ex)
    nexts = [(nbi, nt) for nbi, nt in calls_in(nb, lambda x: x['callee'] == 'std::iter::Iterator::next' and x.get('gargs') == [ad_ty])]
    _retype(F, nb, ad_ty, inner_ty)
    for nbi, nt in nexts:
        if nt['dst']['p'] or nt.get('target', -1) < 0:
            return False
        R = nt['dst']['l']
        T = nt['target']
        some_t, none_t, tstm = _next_targets(nb, T, R)
        nt['res'] = '<%s as std::iter::Iterator>::next' % inner.get('p', '?')
        nt['gargs'] = [inner_ty]
        nt['local'] = bool(inner.get('local'))
        isize = _ty(F, lambda x: x.get('s') == 'isize')
        if kind == 'filter':
            Rin = R
        else:
            # the inner iterator yields the closure's argument type
            Rin = bld.local(_option_of(F, clo['locals'][2]))
            nt['dst'] = {'l': Rin, 'p': []}
        D = bld.local(isize)
        n1, n_some, n_none = bld.reserve(), bld.reserve(), bld.reserve()
        nt['target'] = n1
        bld.set(n_some, copy.deepcopy(tstm), _goto(some_t if some_t is not None else T, sp, ex))
        none_st = copy.deepcopy(tstm)
        if kind != 'filter':
            none_st = [_assign(R, {'k': 'aggr', 'ak': 'adt:std::option::Option::None', 'ops': []}, sp, ex)] + none_st
        bld.set(n_none, none_st, _goto(none_t if none_t is not None else T, sp, ex))
        if kind == 'filter':
            B = bld.local(clo['locals'][0])
            tmp = bld.local(clo['locals'][2])
            n3 = bld.block([], _switch(B, [[0, nbi]], n_some, sp, ex))
            n2 = _call_closure(bld, cq, P, [_mv(tmp)], B, n3, sp, ex)
            nb['blocks'][n2]['stmts'].insert(0, _assign(tmp, {'k': 'ref', 'mut': False, 'pl': {'l': Rin, 'p': list(SOME_P)}}, sp, ex))
        elif kind == 'filter_map':
            M = bld.local(clo['locals'][0])
            x = bld.local(clo['locals'][2])
            D2 = bld.local(isize)
            n4 = bld.block([_some_of(R, M, sp, ex)], _goto(n_some, sp, ex))
            n3 = bld.block([_discr(D2, M, 'std::option::Option', ['None', 'Some'], sp, ex)], _switch(D2, [[1, n4]], nbi, sp, ex))
            n2 = _call_closure(bld, cq, P, [_mv(x)], M, n3, sp, ex)
            nb['blocks'][n2]['stmts'].insert(0, _assign(x, {'k': 'use', 'ops': [_mv(Rin, list(SOME_P))]}, sp, ex))
        else:  # map
            Y = bld.local(clo['locals'][0])
            x = bld.local(clo['locals'][2])
            n3 = bld.block([_assign(R, {'k': 'aggr', 'ak': 'adt:std::option::Option::Some', 'ops': [_mv(Y)]}, sp, ex)], _goto(n_some, sp, ex))
            n2 = _call_closure(bld, cq, P, [_mv(x)], Y, n3, sp, ex)
            nb['blocks'][n2]['stmts'].insert(0, _assign(x, {'k': 'use', 'ops': [_mv(Rin, list(SOME_P))]}, sp, ex))
        bld.set(n1, [_discr(D, Rin, 'std::option::Option', ['None', 'Some'], sp, ex)], _switch(D, [[1, n2]], n_none, sp, ex))
        inline_call(nb, n2, clo)
    return True


def _consumer(F, nb, bi, t, kind, cq):
    """R = it.find/any/all/find_map/try_for_each/for_each(C)  ->  explicit loop over next()"""
    bld = _B(F, nb)
    clo = F.bodies[cq]
    sp, ex = t['sp'], t.get('exp', '')
    it_op, C = t['args']
    if it_op.get('k') not in ('move', 'copy') or it_op['pl']['p'] or t['dst']['p'] or t.get('target', -1) < 0:
        return False
    self_ty = t['gargs'][0]
    inner = F.types[self_ty]
    if inner['k'] != 'adt':
        return False
    it_l = it_op['pl']['l']
    it_is_ref = F.types[nb['locals'][it_l]]['k'] == 'ref'
    R = t['dst']['l']
    nb.setdefault('synth_results', []).append(R)
    T = t['target']
    P = C['pl']['l']
    isize = _ty(F, lambda x: x.get('s') == 'isize')
    item_ty = clo['locals'][2]
    by_ref_arg = kind == 'find'
    if by_ref_arg:
        rt = F.types[item_ty]
        if rt['k'] != 'ref':
            return False
        item_ty = rt['a'][0]
    Rin = bld.local(_option_of(F, item_ty))
    D = bld.local(isize)
    L, n1 = bld.reserve(), bld.reserve()
    # the consumer call site becomes a jump into the loop
    nb['blocks'][bi]['term'] = _goto(L, sp, ex)
    refm = _ty(F, lambda x: x['k'] == 'ref' and x.get('m') and x.get('a') == [self_ty], {'k': 'ref', 'm': True, 'a': [self_ty], 's': '&mut ' + inner.get('s', '?')})
    rl = bld.local(refm)
    pre = [_assign(rl, {'k': 'use', 'ops': [{'k': 'copy', 'pl': {'l': it_l, 'p': []}}]}, sp, ex)] if it_is_ref else [_assign(rl, {'k': 'ref', 'mut': True, 'pl': {'l': it_l, 'p': []}}, sp, ex)]
    bld.set(L, pre, {'k': 'call', 'callee': 'std::iter::Iterator::next', 'res': '<%s as std::iter::Iterator>::next' % inner.get('p', '?'), 'rk': 'item',
                     'local': bool(inner.get('local')), 'selfk': 'concrete', 'gargs': [self_ty], 'args': [_mv(rl)], 'dst': {'l': Rin, 'p': []}, 'target': n1, 'sp': sp, 'exp': ex})

    def out_block(stmts):
        return bld.block(stmts, _goto(T, sp, ex))
    rt_ty = F.types[nb['locals'][R]]
    # exhausted value
    if kind == 'any':
        ex_st = [_assign(R, {'k': 'use', 'ops': [{'k': 'const', 'v': 'false', 'ty': 'bool', 'fn': ''}]}, sp, ex)]
    elif kind == 'all':
        ex_st = [_assign(R, {'k': 'use', 'ops': [{'k': 'const', 'v': 'true', 'ty': 'bool', 'fn': ''}]}, sp, ex)]
    elif kind in ('find', 'find_map'):
        ex_st = [_assign(R, {'k': 'aggr', 'ak': 'adt:std::option::Option::None', 'ops': []}, sp, ex)]
    elif kind == 'try_for_each':
        if rt_ty.get('p') == 'std::ops::ControlFlow':
            ex_st = [_assign(R, {'k': 'aggr', 'ak': 'adt:std::ops::ControlFlow::Continue', 'ops': []}, sp, ex)]
        elif rt_ty.get('p') == 'std::result::Result':
            ex_st = [_assign(R, {'k': 'aggr', 'ak': 'adt:std::result::Result::Ok', 'ops': []}, sp, ex)]
        else:
            return False
    else:
        ex_st = []
    n_ex = out_block(ex_st)
    V = bld.local(clo['locals'][0])
    x = bld.local(clo['locals'][2])
    if kind == 'find':
        hit = out_block([_some_of(R, Rin, sp, ex)])
        n3 = bld.block([], _switch(V, [[0, L]], hit, sp, ex))
        first = _assign(x, {'k': 'ref', 'mut': False, 'pl': {'l': Rin, 'p': list(SOME_P)}}, sp, ex)
    else:
        first = _assign(x, {'k': 'use', 'ops': [_mv(Rin, list(SOME_P))]}, sp, ex)
        if kind == 'any':
            hit = out_block([_assign(R, {'k': 'use', 'ops': [{'k': 'const', 'v': 'true', 'ty': 'bool', 'fn': ''}]}, sp, ex)])
            n3 = bld.block([], _switch(V, [[0, L]], hit, sp, ex))
        elif kind == 'all':
            hit = out_block([_assign(R, {'k': 'use', 'ops': [{'k': 'const', 'v': 'false', 'ty': 'bool', 'fn': ''}]}, sp, ex)])
            n3 = bld.block([], _switch(V, [[0, hit]], L, sp, ex))
        elif kind == 'find_map':
            D2 = bld.local(isize)
            hit = out_block([_some_of(R, V, sp, ex)])
            n3 = bld.block([_discr(D2, V, 'std::option::Option', ['None', 'Some'], sp, ex)], _switch(D2, [[1, hit]], L, sp, ex))
        elif kind == 'try_for_each' and rt_ty.get('p') == 'std::result::Result':
            D2 = bld.local(isize)
            hit = out_block([_assign(R, {'k': 'aggr', 'ak': 'adt:std::result::Result::Err', 'ops': [_mv(V, ['as Err#1', '.0:0@std::result::Result'])]}, sp, ex)])
            n3 = bld.block([_discr(D2, V, 'std::result::Result', ['Ok', 'Err'], sp, ex)], _switch(D2, [[1, hit]], L, sp, ex))
        elif kind == 'try_for_each':
            D2 = bld.local(isize)
            hit = out_block([_assign(R, {'k': 'aggr', 'ak': 'adt:std::ops::ControlFlow::Break', 'ops': [_mv(V, list(BREAK_P))]}, sp, ex)])
            n3 = bld.block([_discr(D2, V, 'std::ops::ControlFlow', ['Continue', 'Break'], sp, ex)], _switch(D2, [[1, hit]], L, sp, ex))
        else:
            n3 = bld.block([], _goto(L, sp, ex))
    n2 = _call_closure(bld, cq, P, [_mv(x)], V, n3, sp, ex)
    nb['blocks'][n2]['stmts'].insert(0, first)
    bld.set(n1, [_discr(D, Rin, 'std::option::Option', ['None', 'Some'], sp, ex)], _switch(D, [[1, n2]], n_ex, sp, ex))
    inline_call(nb, n2, clo)
    return True


def _bool_then(F, nb, bi, t, cq):
    """R = b.then(C)  ->  if b { R = Some(C()) } else { R = None }"""
    bld = _B(F, nb)
    clo = F.bodies[cq]
    sp, ex = t['sp'], t.get('exp', '')
    bop, C = t['args']
    if bop.get('k') not in ('move', 'copy') or bop['pl']['p'] or t['dst']['p'] or t.get('target', -1) < 0:
        return False
    R, T = t['dst']['l'], t['target']
    Y = bld.local(clo['locals'][0])
    n_none = bld.block([_assign(R, {'k': 'aggr', 'ak': 'adt:std::option::Option::None', 'ops': []}, sp, ex)], _goto(T, sp, ex))
    n_some = bld.block([_assign(R, {'k': 'aggr', 'ak': 'adt:std::option::Option::Some', 'ops': [_mv(Y)]}, sp, ex)], _goto(T, sp, ex))
    n2 = _call_closure(bld, cq, C['pl']['l'], [], Y, n_some, sp, ex)
    nb['blocks'][bi]['term'] = _switch(bop['pl']['l'], [[0, n_none]], n2, sp, ex)
    inline_call(nb, n2, clo)
    return True


# Option / Result combinators whose closure does crate-level work:  a.or_else(|| b)  ==  match a { Some(v) => Some(v), None => b }  etc.
#   name -> (adt, variants, index of the variant on which the closure runs, closure takes the payload?, wrap result in variant / None = as is,
#            what the other variant becomes: 'same' (re-wrapped unchanged), 'payload' (the bare payload), ('const', variant) )
COMBINATORS = {
    'std::option::Option::or_else': ('std::option::Option', ['None', 'Some'], 0, False, None, 'same'),
    'std::option::Option::and_then': ('std::option::Option', ['None', 'Some'], 1, True, None, 'same'),
    'std::option::Option::map': ('std::option::Option', ['None', 'Some'], 1, True, 'Some', 'same'),
    'std::option::Option::unwrap_or_else': ('std::option::Option', ['None', 'Some'], 0, False, None, 'payload'),
    'std::option::Option::ok_or_else': ('std::option::Option', ['None', 'Some'], 0, False, 'Err', 'ok'),
    'std::result::Result::or_else': ('std::result::Result', ['Ok', 'Err'], 1, True, None, 'same'),
    'std::result::Result::and_then': ('std::result::Result', ['Ok', 'Err'], 0, True, None, 'same'),
    'std::result::Result::map': ('std::result::Result', ['Ok', 'Err'], 0, True, 'Ok', 'same'),
    'std::result::Result::map_err': ('std::result::Result', ['Ok', 'Err'], 1, True, 'Err', 'same'),
    'std::result::Result::unwrap_or_else': ('std::result::Result', ['Ok', 'Err'], 1, True, None, 'payload'),
}
VAR_ADT = {'Some': 'std::option::Option', 'None': 'std::option::Option', 'Ok': 'std::result::Result', 'Err': 'std::result::Result'}


def _combinator(F, nb, bi, t, cq):
    bld = _B(F, nb)
    clo = F.bodies[cq]
    adt, variants, run_on, takes, wrap, other = COMBINATORS[t['callee']]
    sp, ex = t['sp'], t.get('exp', '')
    a, C = t['args']
    if a.get('k') not in ('move', 'copy') or a['pl']['p'] or t['dst']['p'] or t.get('target', -1) < 0:
        return False
    A, R, T = a['pl']['l'], t['dst']['l'], t['target']
    isize = _ty(F, lambda x: x.get('s') == 'isize')
    D = bld.local(isize)
    Y = bld.local(clo['locals'][0])

    def proj(vi):
        return ['as %s#%d' % (variants[vi], vi), '.0:0@' + adt]
    # closure branch
    if wrap is None:
        res_st = [_assign(R, {'k': 'use', 'ops': [_mv(Y)]}, sp, ex)]
    else:
        res_st = [_assign(R, {'k': 'aggr', 'ak': 'adt:%s::%s' % (VAR_ADT[wrap], wrap), 'ops': [_mv(Y)]}, sp, ex)]
    n_res = bld.block(res_st, _goto(T, sp, ex))
    args = []
    pre = []
    if takes and clo['argc'] >= 2:
        x = bld.local(clo['locals'][2])
        pre.append(_assign(x, {'k': 'use', 'ops': [_mv(A, proj(run_on))]}, sp, ex))
        args = [_mv(x)]
    n_call = _call_closure(bld, cq, C['pl']['l'], args, Y, n_res, sp, ex)
    nb['blocks'][n_call]['stmts'] = pre + nb['blocks'][n_call]['stmts']
    # the other variant
    ov = 1 - run_on
    if other == 'same':
        has_payload = variants[ov] in ('Some', 'Ok', 'Err')
        o_st = [_assign(R, {'k': 'aggr', 'ak': 'adt:%s::%s' % (adt, variants[ov]), 'ops': [_mv(A, proj(ov))] if has_payload else []}, sp, ex)]
    elif other == 'payload':
        o_st = [_assign(R, {'k': 'use', 'ops': [_mv(A, proj(ov))]}, sp, ex)]
    else:  # 'ok': Some(v) -> Ok(v)
        o_st = [_assign(R, {'k': 'aggr', 'ak': 'adt:std::result::Result::Ok', 'ops': [_mv(A, proj(ov))]}, sp, ex)]
    n_other = bld.block(o_st, _goto(T, sp, ex))
    nb['blocks'][bi]['stmts'] = nb['blocks'][bi]['stmts'] + [_discr(D, A, adt, variants, sp, ex)]
    nb['blocks'][bi]['term'] = _switch(D, [[run_on, n_call]], n_other, sp, ex)
    inline_call(nb, n_call, clo)
    return True


def _closure_is_interesting(F, cq, depth=0):
    """the closure (or one it builds) calls into the Node / Adjacent API or a traversal kernel: what it does must be seen in place"""
    cb = F.bodies.get(cq)
    if cb is None or depth > 3:
        return False
    for bi, t in calls_in(cb):
        r = t.get('res', '')
        if t.get('local') and r in F.bodies:
            owner = F.bodies[r].get('impl_self_q', '') or ''
            if (owner.endswith('::node::adjacent::Adjacent') or owner.endswith('::node::Node') or owner.endswith('::Graph') or
                    ('::node::algo::' in owner and owner.split('::')[-1] in ('Bfs', 'Dfs', 'Pfs', 'Order', 'Method'))) and \
                    r.split('::')[-1] not in ('key', 'value', 'clone', 'source', 'target', 'new', 'fmt', 'eq', 'cmp', 'partial_cmp', 'hash', 'upgrade', 'downgrade'):
                return True
    for bb in cb['blocks']:
        if bb.get('cleanup'):
            continue
        for s_ in bb['stmts']:
            if s_['k'] == 'assign' and s_['rv']['k'] == 'aggr' and s_['rv']['ak'].startswith('closure:') and _closure_is_interesting(F, s_['rv']['ak'][len('closure:'):], depth + 1):
                return True
            # it builds a crate value (`Edge(..)`) or writes captured state (`self.position += 1`): part of its host's data flow
            if s_['k'] == 'assign' and s_['rv']['k'] == 'aggr' and re.match(r'^adt:(sync_)?(di|un)graph::', s_['rv']['ak']):
                return True
            if s_['k'] == 'assign' and s_['dst']['l'] == 1 and s_['dst']['p']:
                return True
    return False


def normalize_combinators(F, b, max_rounds=8):
    """rewrites Option/Result combinators and bool::then whose closure does crate-level work; None when there is nothing to do"""
    def sites(body):
        out = []
        for bi, t in calls_in(body):
            c = t['callee']
            if (c in COMBINATORS or c == 'bool::then') and len(t['args']) == 2:
                cq = _closure_of(F, body, t['args'][1])
                if cq and _closure_is_interesting(F, cq):
                    out.append((bi, t, cq))
        return out
    if not sites(b):
        return None
    nb = copy.deepcopy({k: v for k, v in b.items() if k != '_facts'})
    base_regions = len(b.get('inl_regions', []))
    log = []
    for _ in range(max_rounds):
        ss = sites(nb)
        if not ss or len(nb['blocks']) > 1000:
            break
        bi, t, cq = ss[0]
        ok = _bool_then(F, nb, bi, t, cq) if t['callee'] == 'bool::then' else _combinator(F, nb, bi, t, cq)
        if not ok:
            return None
        log.append('%s:%s' % (t['callee'].split('::')[-1], cq.split('::')[-1]))
    # value-taking cousins in a body that is rewritten anyway:  a.ok_or(e) == match a { Some(v) => Ok(v), None => Err(e) }
    for bi, t in list(calls_in(nb, lambda t: t['callee'] == 'std::option::Option::ok_or' and len(t['args']) == 2)):
        a, e = t['args']
        if a.get('k') not in ('move', 'copy') or a['pl']['p'] or t['dst']['p'] or t.get('target', -1) < 0:
            continue
        bld = _B(F, nb)
        sp, ex = t['sp'], t.get('exp', '')
        A, R, T = a['pl']['l'], t['dst']['l'], t['target']
        D = bld.local(_ty(F, lambda x: x.get('s') == 'isize'))
        n_ok = bld.block([_assign(R, {'k': 'aggr', 'ak': 'adt:std::result::Result::Ok', 'ops': [_mv(A, list(SOME_P))]}, sp, ex)], _goto(T, sp, ex))
        n_err = bld.block([_assign(R, {'k': 'aggr', 'ak': 'adt:std::result::Result::Err', 'ops': [e]}, sp, ex)], _goto(T, sp, ex))
        nb['blocks'][bi]['stmts'] = nb['blocks'][bi]['stmts'] + [_discr(D, A, 'std::option::Option', ['None', 'Some'], sp, ex)]
        nb['blocks'][bi]['term'] = _switch(D, [[1, n_ok]], n_err, sp, ex)
        log.append('ok_or')
    n = thread_constants(F, nb)
    nb['inl_regions'] = nb.get('inl_regions', [])[:base_regions]
    nb['_facts'] = F
    nb['desugared_combinators'] = log
    nb['threaded'] = n
    return nb


def _discr_pred(F, nb, bi, t):
    """X = r.is_break() etc.  ->  switch on the discriminant of r assigning constant true / false"""
    bld = _B(F, nb)
    adt, variants, idx = DISCR_PREDS[t['callee']]
    sp, ex = t['sp'], t.get('exp', '')
    a = t['args'][0]
    if a.get('k') not in ('move', 'copy') or a['pl']['p'] or t['dst']['p'] or t.get('target', -1) < 0:
        return False
    # the argument is a reference to a local: find `ref = &local` in this block
    src = None
    for s in reversed(nb['blocks'][bi]['stmts']):
        if s['k'] == 'assign' and s['dst'] == {'l': a['pl']['l'], 'p': []} and s['rv']['k'] == 'ref' and not s['rv']['pl']['p']:
            src = s['rv']['pl']['l']
            break
    if src is None:
        return False
    X, T = t['dst']['l'], t['target']
    nb.setdefault('synth_bools', []).append(X)
    isize = _ty(F, lambda x: x.get('s') == 'isize')
    D = bld.local(isize)
    yes = bld.block([_assign(X, {'k': 'use', 'ops': [{'k': 'const', 'v': 'true', 'ty': 'bool', 'fn': ''}]}, sp, ex)], _goto(T, sp, ex))
    no = bld.block([_assign(X, {'k': 'use', 'ops': [{'k': 'const', 'v': 'false', 'ty': 'bool', 'fn': ''}]}, sp, ex)], _goto(T, sp, ex))
    nb['blocks'][bi]['stmts'] = nb['blocks'][bi]['stmts'] + [_discr(D, src, adt, variants, sp, ex)]
    nb['blocks'][bi]['term'] = _switch(D, [[idx, yes]], no, sp, ex)
    return True


# --------------------------------------------------------------------------------------------------------- jump threading
def _const_of(rv):
    if rv['k'] == 'use' and rv['ops'][0].get('k') == 'const':
        v = rv['ops'][0].get('v')
        if v in ('true', 'const true'):
            return ('bool', 1)
        if v in ('false', 'const false'):
            return ('bool', 0)
    if rv['k'] == 'aggr' and rv['ak'].startswith('adt:') and rv['ak'][4:] in VARIANT_IDX:
        return ('variant', VARIANT_IDX[rv['ak'][4:]])
    return None


def _succs(b):
    t = b['term']
    k = t['k']
    if k in ('goto', 'drop', 'call', 'assert'):
        return [t['target']] if t.get('target', -1) >= 0 else []
    if k == 'switch':
        return [x for v, x in t['targets']] + [t['otherwise']]
    return []


def _retarget(t, old, new):
    if t['k'] == 'switch':
        t['targets'] = [[v, new if x == old else x] for v, x in t['targets']]
        if t['otherwise'] == old:
            t['otherwise'] = new
    elif t.get('target') == old:
        t['target'] = new


def thread_constants(F, nb, max_clones=120):
    """route definitions of a switched-on local by a constant (true/false, an enum variant) directly to the branch they select:
    the call-free region between the definition and the switch (gotos, drops, drop-flag switches) is cloned for that definition
    and its copy of the switch is replaced by a jump.  Returns the number of threaded definitions."""
    blocks = nb['blocks']
    done = 0
    for _round in range(60):
        if len(blocks) > 1500 or done >= max_clones:
            break
        n = len(blocks)
        preds = [[] for _ in range(n)]
        for i, b in enumerate(blocks):
            if b['cleanup']:
                continue
            for s_ in _succs(b):
                if 0 <= s_ < n:
                    preds[s_].append(i)
        # drop flags: bool locals only ever assigned constants
        defs = {}
        for b in blocks:
            if b['cleanup']:
                continue
            for s in b['stmts']:
                if s['k'] == 'assign' and not s['dst']['p']:
                    defs.setdefault(s['dst']['l'], []).append(_const_of(s['rv']))
            if b['term']['k'] == 'call' and not b['term']['dst']['p']:
                defs.setdefault(b['term']['dst']['l'], []).append(None)
        flags = {l for l, ds in defs.items() if l > nb['argc'] and ds and all(d is not None and d[0] == 'bool' for d in ds) and F.types[nb['locals'][l]].get('s') == 'bool'}
        # ... and only ever switched on in the drop diamond  `switch f -> [0: J] else D;  D: drop x -> J`
        for b in blocks:
            t = b['term']
            if b['cleanup'] or t['k'] != 'switch' or t['op'].get('k') not in ('move', 'copy') or t['op']['pl']['p'] or t['op']['pl']['l'] not in flags:
                continue
            zs = [x for v, x in t['targets'] if v == 0]
            ob = blocks[t['otherwise']]
            if not (len(t['targets']) == 1 and zs and ob['term']['k'] == 'drop' and ob['term']['target'] == zs[0] and not [s for s in ob['stmts'] if s['k'] == 'assign']):
                flags.discard(t['op']['pl']['l'])

        def passable(i):
            t = blocks[i]['term']
            if t['k'] in ('goto', 'drop'):
                return True
            return t['k'] == 'switch' and t['op'].get('k') in ('move', 'copy') and not t['op']['pl']['p'] and t['op']['pl']['l'] in flags
        progress = False
        for sw in range(n):
            b = blocks[sw]
            if b['cleanup'] or b['term']['k'] != 'switch' or b['term']['op'].get('k') not in ('move', 'copy') or b['term']['op']['pl']['p']:
                continue
            X = b['term']['op']['pl']['l']
            if X in flags:
                continue      # a compiler drop flag: passable, never worth threading
            kind, tracked = 'bool', X
            for s in b['stmts']:
                if s['k'] == 'assign' and s['dst'] == {'l': X, 'p': []}:
                    if s['rv']['k'] == 'discr' and not s['rv']['pl']['p']:
                        kind, tracked = 'variant', s['rv']['pl']['l']
                    else:
                        kind = None
            if kind is None:
                continue
            S = {tracked}
            cands = []
            visited = set()
            work = [sw]
            while work:
                cur = work.pop()
                for p in preds[cur]:
                    if p == sw or p in visited or blocks[p]['cleanup']:
                        continue
                    hit = blocked = False
                    for s in reversed(blocks[p]['stmts']):
                        if s['k'] == 'assign' and s['dst']['l'] in S:
                            if s['dst']['p']:
                                blocked = True
                                break
                            c = _const_of(s['rv'])
                            if c is not None and c[0] == kind:
                                cands.append((p, c[1], s['rv']))
                                hit = True
                            elif s['rv']['k'] == 'use' and s['rv']['ops'][0].get('k') in ('move', 'copy') and not s['rv']['ops'][0]['pl']['p']:
                                S.add(s['rv']['ops'][0]['pl']['l'])
                                continue
                            else:
                                blocked = True
                            break
                    pt_ = blocks[p]['term']
                    if pt_['k'] == 'call' and not pt_['dst']['p'] and pt_['dst']['l'] in S and not hit and not blocked:
                        # `?`: from_residual(..) builds the failure variant of the function's result type
                        rty_ = F.types[nb['locals'][pt_['dst']['l']]].get('p')
                        if kind == 'variant' and pt_['callee'].endswith('FromResidual::from_residual') and rty_ in ('std::result::Result', 'std::ops::ControlFlow', 'std::option::Option'):
                            cands.append((p, 0 if rty_ == 'std::option::Option' else 1, {'k': 'call'}))
                            hit = True
                        else:
                            blocked = True
                    if hit or blocked:
                        continue
                    if passable(p):
                        visited.add(p)
                        work.append(p)
            if not cands:
                continue
            # blocks that can reach sw at all
            can = {sw}
            w2 = [sw]
            while w2:
                c_ = w2.pop()
                for p in preds[c_]:
                    if p not in can:
                        can.add(p)
                        w2.append(p)
            cand_blocks = {d for d, _, _ in cands}

            def target_for(val):
                for v, x in b['term']['targets']:
                    if v == val:
                        return x
                return b['term']['otherwise']
            for d, val, drv in cands:
                if not passable(d) and not (drv.get('k') == 'call' and blocks[d]['term']['k'] == 'call'):
                    continue
                region, ok, w3 = [], True, list(_succs(blocks[d]))
                seen = set()
                while w3 and ok:
                    r = w3.pop()
                    if r == sw or r in seen:
                        continue
                    if r not in can:
                        continue          # leaves towards somewhere that never reaches the switch
                    if r not in visited or r in cand_blocks or r == d:
                        ok = False
                        break
                    seen.add(r)
                    region.append(r)
                    w3 += _succs(blocks[r])
                if not ok or len(region) > 40:
                    continue
                base = len(blocks)
                m = {r: base + k for k, r in enumerate(region)}
                sw_new = base + len(region)
                for r in region:
                    nbk = {'cleanup': False, 'stmts': copy.deepcopy(blocks[r]['stmts']), 'term': copy.deepcopy(blocks[r]['term'])}
                    for x in set(_succs(blocks[r])):
                        if x in m:
                            _retarget(nbk['term'], x, m[x])
                        elif x == sw:
                            _retarget(nbk['term'], x, sw_new)
                    blocks.append(nbk)
                tgt = target_for(val)
                tb_ = blocks[tgt]
                tail = None
                if tb_['term']['k'] == 'goto' and len(tb_['stmts']) <= 4 and all(s['k'] in ('assign', 'live', 'dead') for s in tb_['stmts']) and len(preds[tgt]) > 0:
                    # tail-duplicate a small landing block (e.g. `result = true; goto exit`) so that each definition has its own
                    tail = {'cleanup': False, 'stmts': copy.deepcopy(tb_['stmts']), 'term': copy.deepcopy(tb_['term'])}
                blocks.append({'cleanup': False, 'stmts': copy.deepcopy(b['stmts']),
                               'term': {'k': 'goto', 'target': tgt if tail is None else sw_new + 1, 'sp': b['term'].get('sp', ''), 'exp': b['term'].get('exp', '')}})
                if tail is not None:
                    blocks.append(tail)
                if drv['k'] == 'aggr' and len(drv.get('ops', [])) == 1:
                    # in the copies, `(X as Variant).0` of a tracked local is the operand of this definition
                    for nbk in blocks[base:]:
                        for st_ in nbk['stmts']:
                            if st_['k'] != 'assign':
                                continue
                            rv_ = st_['rv']
                            for oi, o in enumerate(rv_.get('ops', [])):
                                if o.get('k') in ('move', 'copy') and o['pl']['l'] in S and len(o['pl']['p']) == 2 and o['pl']['p'][0].startswith('as ') and o['pl']['p'][1].startswith('.0'):
                                    rv_['ops'][oi] = copy.deepcopy(drv['ops'][0])
                blocks[d]['term'] = copy.deepcopy(blocks[d]['term'])
                for x in set(_succs(blocks[d])):
                    if x in m:
                        _retarget(blocks[d]['term'], x, m[x])
                    elif x == sw:
                        _retarget(blocks[d]['term'], x, sw_new)
                done += 1
                progress = True
            if progress:
                break
        if not progress:
            break
    return done


def forward_result_var(F, b):
    """single-exit style: `let mut found = None; .. found = Some(v); break 'outer; .. found` -- a local X whose only use is the
    one `_0 = move X` of the body, which is never borrowed, projected or passed on, and is otherwise only assigned whole or
    dropped, *is* the return place: it is renamed to _0 (exact: same stores, same final value).  Returns a new body or None."""
    ret_assigns = []
    for bi, bb in enumerate(b['blocks']):
        if bb.get('cleanup'):
            continue
        for si, s_ in enumerate(bb['stmts']):
            if s_['k'] == 'assign' and s_['dst']['l'] == 0:
                ret_assigns.append((bi, si, s_))
    if len(ret_assigns) != 1:
        return None
    rbi, rsi, rs = ret_assigns[0]
    if rs['dst']['p'] or rs['rv']['k'] != 'use' or rs['rv']['ops'][0].get('k') != 'move' or rs['rv']['ops'][0]['pl']['p']:
        return None
    X = rs['rv']['ops'][0]['pl']['l']
    if X <= b['argc'] or b['locals'][X] != b['locals'][0]:
        return None
    n_assign = 0

    def uses(o):
        return o.get('k') in ('move', 'copy') and o['pl']['l'] == X
    for bi, bb in enumerate(b['blocks']):
        for si, s_ in enumerate(bb['stmts']):
            if s_['k'] in ('live', 'dead'):
                continue
            if s_['k'] != 'assign':
                if json_mentions_local(s_, X):
                    return None
                continue
            if (bi, si) == (rbi, rsi):
                continue
            if s_['dst']['l'] == X:
                if s_['dst']['p']:
                    return None
                n_assign += 1
            rv = s_['rv']
            if 'pl' in rv and rv['pl']['l'] == X:
                return None       # borrowed / discriminant read / copied out
            if any(uses(o) for o in rv.get('ops', [])):
                return None
        t = bb['term']
        if t['k'] == 'call':
            if any(uses(o) for o in t['args']) or t['dst']['l'] == X:
                return None
        elif t['k'] == 'switch':
            if uses(t['op']):
                return None
        elif t['k'] == 'drop':
            pass
        elif t['k'] == 'assert':
            if json_mentions_local(t, X):
                return None
    if n_assign < 2:
        return None       # an ordinary temporary, nothing to forward
    nb = copy.deepcopy({k: v for k, v in b.items() if k != '_facts'})
    for bi, bb in enumerate(nb['blocks']):
        new_st = []
        for si, s_ in enumerate(bb['stmts']):
            if (bi, si) == (rbi, rsi):
                continue
            if s_['k'] in ('live', 'dead') and s_.get('l') == X:
                continue
            if s_['k'] == 'assign' and s_['dst']['l'] == X:
                s_['dst']['l'] = 0
            new_st.append(s_)
        bb['stmts'] = new_st
        t = bb['term']
        if t['k'] == 'drop' and t['pl']['l'] == X and not t['pl']['p']:
            bb['term'] = _goto(t['target'], t['sp'], t.get('exp', ''))
    nb['forwarded_result'] = X
    return nb


def json_mentions_local(obj, X):
    if isinstance(obj, dict):
        if obj.get('l') == X and ('p' in obj or 'k' in obj):
            return True
        return any(json_mentions_local(v, X) for v in obj.values())
    if isinstance(obj, list):
        return any(json_mentions_local(v, X) for v in obj)
    return False


def normalize(F, b, max_rounds=12, only_interesting=False):
    """returns a rewritten copy of b, or None when b contains none of the recognised forms"""
    def sites(body):
        out = []
        for bi, t in calls_in(body):
            c = t['callee']
            if c in ADAPTORS and len(t['args']) == 2 and t.get('gargs') and not t['dst']['p'] and t.get('target', -1) >= 0:
                cq = _closure_of(F, body, t['args'][1])
                ad_ty = body['locals'][t['dst']['l']]
                # only an adaptor that is stepped by an explicit next() in this body (a `for` loop); one that is handed on to
                # collect() / extend() / another adaptor keeps its meaning as a call
                stepped = any(True for _ in calls_in(body, lambda x: x['callee'] == 'std::iter::Iterator::next' and x.get('gargs') == [ad_ty]))
                if cq and stepped and (not only_interesting or _closure_is_interesting(F, cq)):
                    out.append((0, bi, t, ('adaptor', ADAPTORS[c], cq)))
            elif c in CONSUMERS and len(t['args']) == 2 and t.get('gargs'):
                cq = _closure_of(F, body, t['args'][1])
                if cq and (not only_interesting or _closure_is_interesting(F, cq)):
                    out.append((1, bi, t, ('consumer', CONSUMERS[c], cq)))
            elif c == 'bool::then' and len(t['args']) == 2:
                cq = _closure_of(F, body, t['args'][1])
                if cq and (not only_interesting or _closure_is_interesting(F, cq)):
                    out.append((2, bi, t, ('then', None, cq)))
        return sorted(out, key=lambda x: (x[0], x[1]))
    if not sites(b):
        return None
    nb = copy.deepcopy({k: v for k, v in b.items() if k != '_facts'})
    log = []
    for _ in range(max_rounds):
        ss = sites(nb)
        if not ss or len(nb['blocks']) > 1200:
            break
        _, bi, t, (what, kind, cq) = ss[0]
        if what == 'adaptor':
            ok = _adaptor(F, nb, bi, t, kind, cq)
        elif what == 'consumer':
            ok = _consumer(F, nb, bi, t, kind, cq)
        else:
            ok = _bool_then(F, nb, bi, t, cq)
        if not ok:
            return None
        log.append('%s:%s' % (kind or what, cq.split('::')[-1]))
    # `?` applied to the result of a rewritten consumer:  branch(r)  ==  match r { Ok(v) => Continue(v), Err(e) => Break(Err(e)) }
    for bi, t in list(calls_in(nb, lambda t: t['callee'] == 'std::ops::Try::branch' and len(t['args']) == 1)):
        a = t['args'][0]
        if a.get('k') not in ('move', 'copy') or a['pl']['p'] or a['pl']['l'] not in nb.get('synth_results', ()) or t['dst']['p'] or t.get('target', -1) < 0:
            continue
        aty = F.types[nb['locals'][a['pl']['l']]].get('p')
        if aty != 'std::result::Result':
            continue
        bld = _B(F, nb)
        sp, ex = t['sp'], t.get('exp', '')
        A, Bk, T = a['pl']['l'], t['dst']['l'], t['target']
        D = bld.local(_ty(F, lambda x: x.get('s') == 'isize'))
        tmp = bld.local(nb['locals'][A])
        n_ok = bld.block([_assign(Bk, {'k': 'aggr', 'ak': 'adt:std::ops::ControlFlow::Continue', 'ops': [_mv(A, ['as Ok#0', '.0:0@std::result::Result'])]}, sp, ex)], _goto(T, sp, ex))
        n_err = bld.block([_assign(tmp, {'k': 'aggr', 'ak': 'adt:std::result::Result::Err', 'ops': [_mv(A, ['as Err#1', '.0:0@std::result::Result'])]}, sp, ex),
                           _assign(Bk, {'k': 'aggr', 'ak': 'adt:std::ops::ControlFlow::Break', 'ops': [_mv(tmp)]}, sp, ex)], _goto(T, sp, ex))
        nb['blocks'][bi]['stmts'] = nb['blocks'][bi]['stmts'] + [_discr(D, A, 'std::result::Result', ['Ok', 'Err'], sp, ex)]
        nb['blocks'][bi]['term'] = _switch(D, [[0, n_ok]], n_err, sp, ex)
        log.append('branch')
    # discriminant predicates on locals (only in a body that was rewritten: they usually test a consumer's result)
    for bi, t in list(calls_in(nb, lambda t: t['callee'] in DISCR_PREDS)):
        if _discr_pred(F, nb, bi, t):
            log.append(t['callee'].split('::')[-1])
    n = thread_constants(F, nb)
    # the spliced closures are not helpers that decide the kernel's result: what they return is consumed by the synthesized
    # branches, and the kernel's own result is assigned explicitly there
    base_regions = len(b.get('inl_regions', []))
    nb['inl_regions'] = nb.get('inl_regions', [])[:base_regions]
    nb['_facts'] = F
    nb['desugared_filters'] = log
    nb['threaded'] = n
    return nb
