"""Rules over traversal kernels: DISC, EXH, EXEC1, FRONT (BFS1/DFS1/PFS), TR0, ORD1, METHOD."""
import re
from .core import Obl, calls_in, callee_name, pretty, proj_field, term_mentions, strip_payload, DIRECTED, UNDIRECTED
from .kernels import key_of, has_target_field, TAKE_M, ADD_M
from . import dispatch


def _w(F, K, site=None):
    if site is not None and site in K.sites:
        return F.where(K.b, K.sites[site])
    return K.b['span']


def _sel(ctx, fams, flavours):
    return [K for K in ctx.kernels() if K.family in fams and K.flavour in flavours]


def roles(ctx, fams, flavours):
    """every mandatory role present (a missing role is a violation, never a skip)"""
    F = ctx.F
    out = []
    for K in _sel(ctx, fams, flavours):
        need_found = has_target_field(F, K)
        miss = list(K.missing)
        if need_found and not K.missing:
            if not any(k in ('true', 'some') for _, k, _ in K.founds):
                miss.append('FOUND')
            if K.teq_true is None:
                miss.append('TARGETEQ')
        if not K.missing and K.result and 'RECORD' not in K.sites:
            miss.append('RECORD')
        out.append(Obl('ROLES', K.q, _w(F, K), 'all mandatory roles recovered', not miss, 'missing: ' + ', '.join(miss) if miss else
                       'FRONTIER=%s VISITED=P%d%s TAKE ITER=%s ITEM EDGE=%s EXEC FAR CONTAINS INSERT ADVANCE%s%s' % (
                           K.front_adt.split('::')[-1], K.vis, ' RESULT=P%d' % K.result if K.result else '', K.iter_ctor, K.edge_kind,
                           ' RECURSE' if K.recurse else '', ' FOUND TARGETEQ' if need_found else '')))
    return out


def _edge_dom(K, edge, site):
    if edge is None or site is None:
        return False
    return K.cfg.edge_dominates(edge[0], edge[1], site)


def _avoid_path(K, start, goal, avoid):
    """is there a path start -> goal that avoids all blocks in `avoid` (start itself may be in avoid -> no path)"""
    if start in avoid:
        return False
    return K.cfg.path_exists(start, goal, avoiding=avoid)


def disc(ctx, fams, flavours):
    F = ctx.F
    out = []
    for K in _sel(ctx, fams, flavours):
        if K.missing:
            out.append(Obl('DISC', K.q, _w(F, K), 'roles', False, 'roles missing: ' + ', '.join(K.missing)))
            continue
        S = K.sites
        cfg = K.cfg
        KEYFAR = key_of(K.FAR)
        direct_founds = [(bi, k, t) for bi, k, t in K.founds if k in ('true', 'some') and not (K.recurse and any(cfg.dominates(rb, bi) for rb, _ in K.recurse))]
        prop_founds = [(bi, k, t) for bi, k, t in K.founds if (bi, k, t) not in direct_founds]

        def O(clause, ok, why, site=None):
            out.append(Obl('DISC-' + clause, K.q, _w(F, K, site), clause_text[clause], ok, why))
        clause_text = {
            'i': 'accepted by EXEC before mark / record / advance / found',
            'ii': 'not-visited edge dominates mark / record / advance / found',
            'iii': 'marked visited on discovery (INSERT dominates ADVANCE, every discovery is marked)',
            'iv': 'discovery edge recorded before advance and before found',
            'v': 'found only for the target, after mark',
            'vi': 'far endpoint used for visited key / frontier / found; recorded edge is EDGE',
            'vii': 'edges come live from the node iterator of the taken node',
        }
        # (i)
        # (the relative order of EXEC and the visited *test* is EXEC1's business: it matters to callbacks only)
        bad = [s for s in ('INSERT', 'RECORD', 'ADVANCE') if s in S and not _edge_dom(K, K.exec_true, S[s])]
        bad += ['FOUND@bb%d' % bi for bi, k, t in direct_founds if not _edge_dom(K, K.exec_true, bi)]
        O('i', not bad, 'not dominated by EXEC-true: ' + ', '.join(bad) if bad else 'EXEC-true edge bb%d->bb%d dominates all' % K.exec_true, 'EXEC')
        # (ii)
        bad = [s for s in ('INSERT', 'RECORD', 'ADVANCE') if s in S and not _edge_dom(K, K.notvis, S[s]) and not (s == 'INSERT' and K.insert_is_test)]
        bad += ['FOUND@bb%d' % bi for bi, k, t in direct_founds if not _edge_dom(K, K.notvis, bi)]
        O('ii', not bad, 'not dominated by not-visited edge: ' + ', '.join(bad) if bad else 'not-visited edge bb%d->bb%d dominates all' % K.notvis, 'CONTAINS')
        # (iii)
        # the mark and the frontier add belong to the same discovery; which of the two statements comes first is immaterial unless
        # something in between reads the visited set (a descent)
        ok = cfg.dominates(S['INSERT'], S['ADVANCE']) or (cfg.dominates(S['ADVANCE'], S['INSERT']) and not K.insert_is_test and
                                                            not any(cfg.dominates(S['ADVANCE'], rb_) and cfg.dominates(rb_, S['INSERT']) for rb_, _ in K.recurse))
        why = []
        if not ok:
            why.append('INSERT does not dominate ADVANCE')
        if K.recurse and not all(cfg.dominates(S['INSERT'], rb_) for rb_, _ in K.recurse):
            ok = False
            why.append('the descent can start before the node is marked')
        # every discovery is marked before the next edge is examined or the function returns without FOUND
        nv_t = K.notvis[1]
        # a discovery = the edge was accepted AND its far endpoint is unvisited; the region starts behind whichever test comes second
        if K.exec_true and cfg.edge_dominates(K.notvis[0], K.notvis[1], S['EXEC']):
            nv_t = K.exec_true[1]
        # with `if visited.insert(k)` the test itself marks; the discovery region starts behind its true edge
        start = nv_t if K.insert_is_test else S['INSERT']
        if not K.insert_is_test and nv_t != S['INSERT'] and _avoid_path(K, nv_t, S['NEXT'], {S['INSERT']} | {bi_ for bi_, _, _ in K.founds}):
            ok = False
            why.append('a path from the not-visited edge back to next() avoids INSERT')
        # every newly marked node enters the frontier unless the search ends
        found_blocks = {bi for bi, k, t in K.founds}
        if cfg.dominates(S['ADVANCE'], S['INSERT']):
            start = nv_t      # advance comes first: the discovery region starts at the not-visited edge
        if _avoid_path(K, start, S['NEXT'], {S['ADVANCE']} | found_blocks) and start != S['ADVANCE']:
            ok = False
            why.append('a path from INSERT back to next() avoids ADVANCE (discovered node never expanded)')
        # ... and stays marked: inside a kernel the visited set is only tested and grown.  Forgetting a key (remove / clear / retain /
        # take, per level or on back-tracking) re-opens the node: it is discovered and expanded again
        VIS_OK = {'contains', 'insert', 'get', 'len', 'is_empty', 'deref', 'deref_mut', 'reserve', 'extend', 'capacity', 'iter', 'borrow', 'borrow_mut', 'as_ref', 'as_mut'}
        for bi_, t_ in calls_in(K.b):
            if bi_ not in cfg.reach or t_['callee'] in F.bodies or (t_.get('local') and t_.get('res') in F.bodies):
                continue
            cn_ = callee_name(t_).split('::')[-1]
            if cn_ in VIS_OK:
                continue
            if any(term_mentions(K.pv.of_operand(a_), lambda x: x == ('param', K.vis)) for a_ in t_['args'] if a_['k'] in ('move', 'copy')):
                ok = False
                why.append('the visited set is handed to %s at %s: a key that is un-marked is discovered and expanded again' % (callee_name(t_), t_['sp']))
        O('iii', ok, '; '.join(why) if why else 'INSERT bb%d dominates ADVANCE bb%d; no path skips either' % (S['INSERT'], S['ADVANCE']), 'INSERT')
        # (iv)
        if K.result:
            why = []
            ok = True
            if K.family != 'Order':
                # the edge is recorded in the same discovery as the frontier add (either statement order), and before any descent
                if not (cfg.dominates(S['RECORD'], S['ADVANCE']) or cfg.dominates(S['ADVANCE'], S['RECORD'])):
                    ok = False
                    why.append('RECORD and ADVANCE are not on the same path')
                if K.recurse and not all(cfg.dominates(S['RECORD'], rb_) for rb_, _ in K.recurse):
                    ok = False
                    why.append('RECORD does not precede the descent (the edge tree must list a parent edge before its child edges)')
                for bi, k, t in direct_founds:
                    if not cfg.dominates(S['RECORD'], bi):
                        ok = False
                        why.append('FOUND@bb%d not dominated by RECORD' % bi)
            if not cfg.dominates(S['INSERT'], S['RECORD']) and not cfg.dominates(S['CONTAINS'], S['RECORD']):
                ok = False
                why.append('RECORD not dominated by the visited test')
            start = nv_t if (K.insert_is_test or cfg.dominates(S['RECORD'], S['INSERT'])) else S['INSERT']
            if _avoid_path(K, start, S['NEXT'], {S['RECORD']}) and start != S['RECORD']:
                # found paths leave the loop; only paths that continue iterating matter
                ok = False
                why.append('a path from INSERT back to next() avoids RECORD (discovery edge lost)')
            if K.result_other_ops:
                ok = False
                why.append('result list also receives ' + ','.join(K.result_other_ops))
            O('iv', ok, '; '.join(why) if why else 'RECORD bb%d placed correctly' % S['RECORD'], 'RECORD')
        # (v)
        if has_target_field(F, K):
            ok = True
            why = []
            for bi, k, t in direct_founds:
                if not _edge_dom(K, K.teq_true, bi):
                    ok = False
                    why.append('FOUND@bb%d not dominated by TARGETEQ-true' % bi)
                if not cfg.dominates(S['INSERT'], bi):
                    ok = False
                    why.append('FOUND@bb%d not dominated by INSERT' % bi)
            if not direct_founds:
                ok = False
                why.append('no FOUND site')
            # the target comparison must be reachable on every discovery: TARGETEQ post-dominates INSERT up to next()
            if K.teq_site is not None and _avoid_path(K, S['INSERT'], S['ADVANCE'], {K.teq_site}) and False:
                pass
            O('v', ok, '; '.join(why) if why else '%d FOUND site(s) behind TARGETEQ-true and INSERT' % len(direct_founds))
        # (vi)
        why = []
        if not (K.edge_kind in ('ITEM', 'REV')):
            why.append('EDGE is %s' % K.edge_kind)
        if strip_payload(K.contains_key) != KEYFAR:
            why.append('visited test on %s, not key(FAR)' % pretty(K.contains_key))
        if strip_payload(K.insert_key) != KEYFAR:
            why.append('insert of %s, not key(FAR)' % pretty(K.insert_key))
        if K.advance_term != K.FAR:
            why.append('frontier add of %s, not FAR' % pretty(K.advance_term))
        for bi, k, t in direct_founds:
            if k == 'some' and t != K.FAR:
                why.append('FOUND@bb%d returns %s, not FAR' % (bi, pretty(t)))
        if K.result and K.record_term != K.edge_term:
            why.append('recorded %s, not EDGE' % pretty(K.record_term))
        O('vi', not why, '; '.join(why) if why else 'FAR=%s' % pretty(K.FAR), 'CONTAINS')
        # (vii)
        ok = K.iter_on_taken and K.n_next == 1 and not K.buffered
        O('vii', ok, 'iterator %s constructed on %s%s' % (K.iter_ctor, 'the taken node' if K.iter_on_taken else 'something else',
                                                         '; but the edges are walked from a collected snapshot, not live' if K.buffered else ''), 'ITER')
        if not K.iter_on_taken:
            O('vi', False, 'the expanded node is not the one taken from the frontier', 'ITER')
    return out


def term(ctx, fams, flavours):
    """TERM: a node enters the frontier only when it has just been marked visited (bounds expansions by the number of distinct keys)"""
    F = ctx.F
    out = []
    for K in _sel(ctx, fams, flavours):
        if K.missing:
            out.append(Obl('TERM', K.q, _w(F, K), 'roles', False, 'roles missing: ' + ', '.join(K.missing)))
            continue
        S, cfg = K.sites, K.cfg
        why = []
        if not _edge_dom(K, K.notvis, S['ADVANCE']):
            why.append('frontier add is not confined to the not-visited branch')
        # the add and the mark belong to the same discovery (either statement order; a descent in between would be seen by DISC-iii)
        if not (cfg.dominates(S['INSERT'], S['ADVANCE']) or (cfg.dominates(S['ADVANCE'], S['INSERT']) and not _avoid_path(K, S['ADVANCE'], S['NEXT'], {S['INSERT']}))):
            why.append('frontier add is not accompanied by marking the node visited')
        if strip_payload(K.insert_key) != key_of(K.advance_term):
            why.append('marks %s but queues %s' % (pretty(K.insert_key), pretty(K.advance_term)))
        if strip_payload(K.contains_key) != strip_payload(K.insert_key):
            why.append('tests %s but marks %s' % (pretty(K.contains_key), pretty(K.insert_key)))
        out.append(Obl('TERM', K.q, _w(F, K, 'ADVANCE'), 'only newly marked nodes enter the frontier', not why, '; '.join(why) if why else 'ok'))
    return out


def exh(ctx, fams, flavours):
    """exit edges of every loop in a kernel are 'driver returned None' or lead to FOUND only"""
    F = ctx.F
    out = []
    for K in _sel(ctx, fams, flavours):
        if K.missing:
            out.append(Obl('EXH', K.q, _w(F, K), 'roles', False, 'roles missing'))
            continue
        cfg, pv, b = K.cfg, K.pv, K.b
        found = {bi for bi, k, t in K.founds}

        def all_paths_hit_found(y):
            seen = set()
            st = [y]
            while st:
                x = st.pop()
                if x in seen or x in found:
                    continue
                seen.add(x)
                if b['blocks'][x]['term']['k'] == 'return':
                    return False
                st.extend(cfg.succ[x])
            return True
        def same_iteration(y):
            # leaving an inner loop (e.g. the retry loop of `it.find(..)`) but not the edge iteration: every path from y comes back
            # to next() on the same iterator (not through ITER / TAKE), or ends in FOUND
            stop = {K.sites.get('ITER'), K.sites.get('TAKE')} - {None}
            seen = set()
            st = [y]
            while st:
                x = st.pop()
                if x in seen or x in found or x == K.sites['NEXT']:
                    continue
                seen.add(x)
                if x in stop or b['blocks'][x]['term']['k'] == 'return':
                    return False
                st.extend(cfg.succ[x])
            return True
        ls = cfg.loops()
        n_exits = 0
        odd = []
        kinds = {'exhausted': 0, 'found': 0, 'continue': 0}
        for h, body in sorted(ls.items()):
            for x in sorted(body):
                for y in cfg.succ[x]:
                    if y in body:
                        continue
                    n_exits += 1
                    t = b['blocks'][x]['term']
                    ok = None
                    if t['k'] == 'switch':
                        term = pv.of_operand(t['op'])
                        if isinstance(term, tuple) and term[0] == 'discr' and isinstance(term[1], tuple) and term[1][0] == 'call' and \
                                re.search(r'Iterator>::next$|Iterator::next$|::pop_front$|::pop_back$|::pop$', term[1][1]):
                            vals = [v for v, tg in t['targets'] if tg == y]
                            if vals == [0]:
                                ok = 'exhausted'
                            elif y == t['otherwise'] and [v for v, _ in t['targets']] == [1]:
                                ok = 'exhausted'
                    if ok is None and all_paths_hit_found(y):
                        ok = 'found'
                    if ok is None and K.sites['NEXT'] in body and same_iteration(y):
                        ok = 'continue'
                    if ok is None:
                        odd.append('bb%d->bb%d (%s)' % (x, y, t['sp']))
                    else:
                        kinds[ok] += 1
        # the edge loop must exist
        has_edge_loop = any(K.sites['NEXT'] in body for body in ls.values())
        why = []
        if not has_edge_loop:
            why.append('next() is not inside a loop')
        if odd:
            why.append('unexplained loop exit(s): ' + ', '.join(odd))
        # recursion: result of the recursive call leads to FOUND on true and back to next() otherwise; TAKE happens once at the top
        if K.recurse:
            for rb, rt in K.recurse:
                if has_target_field(F, K):
                    # propagate: some FOUND must be dominated by the recursive call
                    if not any(cfg.dominates(rb, fb) for fb, k, t in K.founds if fb != rb):
                        why.append('result of the recursive call is not propagated to the caller')
                    # ... and on the right outcome: FOUND behind the descent is confined to its success, a failed descent goes on iterating
                    from .core import outcome_edges
                    te, fe = cfg.bool_edges(rt['dst']['l'], rt['target'])
                    if te is None:
                        te, fe = outcome_edges(F, b, rb)
                    if te is not None:
                        for fb, k, t in K.founds:
                            if fb != rb and cfg.dominates(rb, fb) and k in ('true', 'some') and not cfg.edge_dominates(te[0], te[1], fb):
                                why.append('FOUND@bb%d behind the recursive call is not confined to its success outcome' % fb)
                        if fe is not None and any(k in ('true', 'some') and cfg.path_exists(fe[1], fb, avoiding={K.sites['NEXT']}) for fb, k, t in K.founds):
                            why.append('a failed descent can reach FOUND without examining another edge')
        else:
            # iterative kernels: TAKE must sit in an outer loop containing the edge loop
            tk = K.sites.get('TAKE')
            if not any(tk in body and K.sites['NEXT'] in body for body in ls.values()):
                why.append('TAKE and next() are not nested in one outer loop')
        # the edge iterator has one consumer, the loop head: a second `&mut` user of the same iterator (by_ref().take_while(..),
        # nth, a nested loop stepping it) swallows edges that never reach the callback or the visited test
        nt = b['blocks'][K.sites['NEXT']]['term']
        if not getattr(K, 'buffered', False) and nt.get('gargs'):
            ity = nt['gargs'][0]
            its = {l for l, ty in enumerate(b['locals']) if ty == ity}
            refs = set()
            ch = True
            while ch:
                ch = False
                for blk in b['blocks']:
                    for st_ in blk['stmts']:
                        if st_['k'] != 'assign' or st_['dst']['p'] or st_['dst']['l'] in refs:
                            continue
                        rv = st_['rv']
                        if rv['k'] == 'ref' and rv.get('mut') and ((rv['pl']['l'] in its and not rv['pl']['p']) or (rv['pl']['l'] in refs and rv['pl']['p'] == ['*'])):
                            refs.add(st_['dst']['l']); ch = True
                        elif rv['k'] == 'use' and any(o['k'] in ('move', 'copy') and o['pl']['l'] in refs and not o['pl']['p'] for o in rv['ops']):
                            refs.add(st_['dst']['l']); ch = True
            for bi2, t2 in calls_in(b):
                if bi2 == K.sites['NEXT'] or bi2 not in cfg.reach:
                    continue
                if any(a['k'] in ('move', 'copy') and a['pl']['l'] in refs and not a['pl']['p'] for a in t2['args']):
                    why.append('the edge iterator is also consumed by %s at %s: edges it takes never reach the callback' % (callee_name(t2), t2['sp']))
        # false/None is only returned after exhaustion: every `false`/`none` return block is reachable only via exhausted exits
        out.append(Obl('EXH', K.q, _w(F, K, 'NEXT'), 'no early exit: %d loop exit edges' % n_exits, not why,
                       '; '.join(why) if why else '%d exhausted, %d found' % (kinds['exhausted'], kinds['found'])))
    return out


def exec1(ctx, fams, flavours):
    F = ctx.F
    out = []
    for K in _sel(ctx, fams, flavours):
        if K.missing:
            out.append(Obl('EXEC1', K.q, _w(F, K), 'roles', False, 'roles missing'))
            continue
        S, cfg = K.sites, K.cfg
        why = []
        why0 = []
        if not cfg.dominates(S['EXEC'], S['CONTAINS']):
            why0.append('EXEC does not dominate the visited test')
        if cfg.dominates(S['CONTAINS'], S['EXEC']) and S['CONTAINS'] != S['EXEC']:
            why0.append('the visited test dominates EXEC (callback only sees unvisited targets)')
        if not cfg.dominates(S['NEXT'], S['EXEC']):
            why.append('EXEC not dominated by next()')
        # every yielded edge reaches EXEC: from the Some edge of next() no path returns to next() avoiding EXEC
        nb = K.b['blocks'][S['NEXT']]['term']
        sb, st, _ = cfg.switch_on(None, -1) if False else (None, None, None)
        some_t = None
        # find discriminant switch on the next() result
        x = nb['target']
        seen = set()
        while x not in seen and x >= 0:
            seen.add(x)
            t = K.b['blocks'][x]['term']
            if t['k'] == 'switch':
                term = K.pv.of_operand(t['op'])
                if isinstance(term, tuple) and term[0] == 'discr':
                    ones = [tg for v, tg in t['targets'] if v == 1]
                    some_t = ones[0] if ones else t['otherwise']
                break
            if t['k'] in ('goto', 'drop'):
                x = t['target']
            else:
                break
        if some_t is None:
            why.append('cannot find the Some edge of next()')
        else:
            if _avoid_path(K, some_t, S['NEXT'], {S['EXEC']}):
                why0.append('a yielded edge can skip EXEC')
            # for reachability it is enough that every edge into an *unvisited* node is offered to EXEC
            avoid = {S['EXEC']} | ({K.vis_true[1]} if K.vis_true else set())
            if _avoid_path(K, some_t, S['NEXT'], avoid):
                why.append('a yielded edge can be dropped without being offered to EXEC although its far endpoint may be unvisited')
        # the callback that runs is the builder's: the receiver of exec() is a field of self (not a fresh / default Method)
        recv = strip_payload(K.pv.of_operand(K.b['blocks'][S['EXEC']]['term']['args'][0]))
        if not (isinstance(recv, tuple) and recv and recv[0] == 'f' and strip_payload(recv[1]) == ('param', 1)):
            why.append('the callback receiver is %s, not the configured self.method' % pretty(recv))
        # at most once per yielded edge: no cycle through EXEC that avoids next()
        et = K.b['blocks'][S['EXEC']]['term']['target']
        if et >= 0 and _avoid_path(K, et, S['EXEC'], {S['NEXT']}):
            why.append('EXEC can run twice for one yielded edge')
        out.append(Obl('EXEC1', K.q, _w(F, K, 'EXEC'), 'every yielded edge into an unvisited node is offered to EXEC, at most once', not why, '; '.join(why) if why else 'EXEC bb%d' % S['EXEC']))
        out.append(Obl('EXEC0', K.q, _w(F, K, 'EXEC'), 'callback before the visited test, for every yielded edge', not (why or why0), '; '.join(why + why0) if (why or why0) else 'EXEC bb%d' % S['EXEC']))
    return out


READONLY_FRONT = {'is_empty', 'len', 'deref', 'deref_mut'}


def frontier(ctx, fams, flavours):
    """BFS1 / DFS1 / PFS-front: the frontier discipline of the family"""
    F = ctx.F
    out = []
    for K in _sel(ctx, fams, flavours):
        if K.missing:
            out.append(Obl('FRONT', K.q, _w(F, K), 'roles', False, 'roles missing'))
            continue
        S, cfg = K.sites, K.cfg
        why = []
        other = [m for bi, m, t in K.front_ops if m not in TAKE_M and m not in ADD_M and m not in READONLY_FRONT]
        if other:
            why.append('extra frontier operations: ' + ','.join(sorted(set(other))))
        fam = K.family
        adt = K.front_adt.split('::')[-1]
        if fam == 'Bfs':
            if adt != 'VecDeque':
                why.append('frontier is %s, not a FIFO queue' % adt)
            elif (K.take_m, K.add_m) not in (('pop_front', 'push_back'), ('pop_back', 'push_front')):
                why.append('take=%s add=%s are not opposite ends' % (K.take_m, K.add_m))
            rule = 'BFS1'
            inst = 'FIFO frontier: take and add at opposite ends'
        elif fam in ('Dfs', 'Order'):
            rule = 'DFS1'
            inst = 'LIFO frontier: push(FAR) immediately followed by the recursive call'
            if adt == '<recursion>' and (K.take_m, K.add_m) == ('param', 'recurse'):
                pass   # implicit stack: the node to expand is a parameter, the recursive call is the push+pop
            elif adt == 'Vec' and (K.take_m, K.add_m) == ('pop', 'push'):
                pass
            elif adt == 'VecDeque' and (K.take_m, K.add_m) in (('pop_back', 'push_back'), ('pop_front', 'push_front')):
                pass
            else:
                why.append('frontier %s take=%s add=%s is not a stack' % (adt, K.take_m, K.add_m))
            if not K.recurse:
                why.append('no recursive call (depth-first kernels descend by recursion)')
            else:
                rb = K.recurse[0][0]
                if not cfg.dominates(S['ADVANCE'], rb):
                    why.append('the recursive call is not dominated by ADVANCE')
                if _avoid_path(K, S['ADVANCE'], S['NEXT'], {rb}) and S['ADVANCE'] != rb:
                    why.append('a path from ADVANCE back to next() avoids the recursive call')
                # no frontier op between ADVANCE and RECURSE
                between = [bi for bi, m, t in K.front_ops if bi not in (S['ADVANCE'],) and cfg.dominates(S['ADVANCE'], bi) and cfg.dominates(bi, rb) and bi != rb]
                if between:
                    why.append('frontier touched between ADVANCE and the recursive call')
                # recursive call passes the same collections
                for rbi, rt in K.recurse:
                    args = [strip_payload(K.pv.of_operand(a)) for a in rt['args']]
                    exp = [('param', i) for i in range(1, K.b['argc'] + 1)]
                    if K.node_param is not None:
                        exp[K.node_param - 1] = K.FAR
                    if args != exp:
                        why.append('recursive call does not pass its own parameters through: ' + ','.join(pretty(a) for a in args))
                if not cfg.dominates(S['TAKE'], S['NEXT']):
                    why.append('TAKE does not dominate the edge loop')
        elif fam == 'Pfs':
            rule = 'PFS-FRONT'
            inst = 'priority frontier: BinaryHeap pop/push, Reverse used consistently'
            if adt != 'BinaryHeap':
                why.append('frontier is %s, not a binary heap%s' % (adt, ' (a set ordered by node value drops a discovered node whose value ties with one already waiting)' if 'Set' in adt else ''))
            elif (K.take_m, K.add_m) != ('pop', 'push'):
                why.append('take=%s add=%s' % (K.take_m, K.add_m))
            if K.front_reverse != K.advance_wrapped:
                why.append('Reverse wrapping of pushed nodes does not match the heap type')
        else:
            rule = 'FRONT'
            inst = 'unknown family ' + fam
            why.append('unknown kernel family')
        out.append(Obl(rule, K.q, _w(F, K, 'TAKE'), inst, not why, '; '.join(why) if why else '%s take=%s add=%s' % (adt, K.take_m, K.add_m)))
    return out


def direction(K):
    sig = (K.iter_ctor, K.edge_kind)
    return {('iter_out', 'ITEM'): 'OUT', ('into_iter', 'ITEM'): 'OUT', ('iter_in', 'REV'): 'IN', ('iter', 'ITEM'): 'ADJ'}.get(sig, 'MALFORMED')


def tr0(ctx, fams, flavours):
    """edge orientation signature of each kernel is well-formed for its flavour"""
    F = ctx.F
    out = []
    for K in _sel(ctx, fams, flavours):
        if K.missing:
            out.append(Obl('TR0', K.q, _w(F, K), 'roles', False, 'roles missing'))
            continue
        d = direction(K)
        if K.iter_ctor == 'into_iter' and K.flavour in UNDIRECTED:
            d = 'ADJ' if K.edge_kind == 'ITEM' else 'MALFORMED'
        ok = (d in ('OUT', 'IN')) if K.flavour in DIRECTED else (d == 'ADJ')
        out.append(Obl('TR0', K.q, _w(F, K, 'ITER'), 'orientation signature (iterator, edge presentation)', ok,
                       '%s: iterator=%s edge=%s' % (d, K.iter_ctor, K.edge_kind)))
    return out


def method(ctx, flavours):
    """METHOD: Empty -> true, ForEach(f) -> call once, true; Filter(f) -> the call result"""
    F = ctx.F
    out = []
    for fl in flavours:
        cands = [b for b in F.by_flavour(fl) if b['kind'] != 'Closure' and not b['impl_trait'] and b['argc'] == 2 and
                 F.adts.get(b['impl_self_q'], {}).get('kind') == 'Enum' and F.types[b['locals'][0]]['s'] == 'bool' and
                 any(any(tt['k'] == 'dyn' for tt in F.ty_walk(f['ty'])) for v in F.adts[b['impl_self_q']]['variants'] for f in v['fields'])]
        if len(cands) > 1:
            cands = [b for b in cands if b['q'] not in getattr(F, 'absorbed', ())] or cands
        if len(cands) != 1:
            out.append(Obl('METHOD', fl, 'src/%s/node/algo/method.rs' % fl, 'exec function', False, 'expected one callback dispatcher, found %d' % len(cands)))
            continue
        b = cands[0]
        cfg, pv = F.cfg(b), F.prov(b)
        adt = F.adts[b['impl_self_q']]
        vnames = [v['name'] for v in adt['variants']]
        vfields = {v['name']: v['fields'] for v in adt['variants']}
        # per callback kind: walk the dispatcher with the discriminant of *self fixed to that kind (one switch, or several when the
        # dispatcher is written as per-kind steps run back to back) and look at the closure calls and the value returned on the way
        def is_self_discr(t):
            term = pv.of_operand(t['op'])
            return isinstance(term, tuple) and term[0] == 'discr' and strip_payload(term[1]) == ('param', 1)
        if not any(bb['term']['k'] == 'switch' and bi in cfg.reach and is_self_discr(bb['term']) for bi, bb in enumerate(b['blocks'])):
            out.append(Obl('METHOD', b['q'], b['span'], 'dispatch on the callback kind', False, 'no switch on the enum discriminant'))
            continue
        G_ = ctx.G()

        def paths_for(vi):
            res = []
            def go(bi, calls, env, seen, first):
                while True:
                    if bi in seen or len(res) > 64:
                        return
                    seen = seen | {bi}
                    bb = b['blocks'][bi]
                    for s_ in bb['stmts']:
                        if s_['k'] == 'assign' and not s_['dst']['p']:
                            rv = s_['rv']
                            if rv['k'] == 'use' and rv['ops']:
                                o = rv['ops'][0]
                                if o.get('k') in ('move', 'copy') and not o['pl']['p']:
                                    env = dict(env); env[s_['dst']['l']] = env.get(o['pl']['l'], ('?', o['pl']['l']))
                                elif o.get('v') in ('const true', 'true'):
                                    env = dict(env); env[s_['dst']['l']] = 'TRUE'
                                else:
                                    env = dict(env); env[s_['dst']['l']] = ('?', 'expr')
                            else:
                                env = dict(env); env[s_['dst']['l']] = ('?', rv['k'])
                    t = bb['term']
                    if t['k'] == 'return':
                        res.append((calls, env.get(0), first))
                        return
                    if t['k'] == 'call':
                        if G_.user_kind(t) == 'callback':
                            calls = calls + [(bi, t)]
                            if not t['dst']['p']:
                                env = dict(env); env[t['dst']['l']] = ('CALL', bi)
                        elif not t['dst']['p']:
                            env = dict(env); env[t['dst']['l']] = ('?', 'call')
                        if t.get('target', -1) < 0:
                            return
                        bi = t['target']; continue
                    if t['k'] == 'switch':
                        if is_self_discr(t):
                            tg = [g for v, g in t['targets'] if v == vi]
                            nxt = tg[0] if tg else t['otherwise']
                            if first is None:
                                first = nxt
                            bi = nxt; continue
                        for g in sorted({g for _, g in t['targets']} | {t['otherwise']}):
                            go(g, calls, env, seen, first)
                        return
                    if t['k'] in ('goto', 'drop', 'assert') and t.get('target', -1) >= 0:
                        bi = t['target']; continue
                    return
            go(0, [], {}, frozenset(), None)
            return res
        for vi, vn in enumerate(vnames):
            inst = 'variant %s' % vn
            ps = paths_for(vi)
            if not ps:
                out.append(Obl('METHOD', b['q'], b['span'], inst, False, 'no arm'))
                continue
            tg = ps[0][2] if ps[0][2] is not None else 0
            why = []
            carries_bool = any(re.search(r'-> bool', F.types[f['ty']]['s']) for f in vfields[vn])
            carries_dyn = any(any(tt['k'] == 'dyn' for tt in F.ty_walk(f['ty'])) for f in vfields[vn])
            for calls_here, ret, _ in ps:
                w = []
                if not carries_dyn:
                    if calls_here:
                        w.append('calls a closure although the variant carries none')
                    if ret != 'TRUE':
                        w.append('does not return constant true')
                else:
                    if len(calls_here) == 0 and any(len(c2) for c2, _, _ in ps):
                        w.append('the closure call is conditional: some edges are never handed to the callback')
                    elif len(calls_here) != 1:
                        w.append('%d closure calls (expected exactly one)' % len(calls_here))
                    else:
                        cbi, ct = calls_here[0]
                        argt = pv.of_operand(ct['args'][1]) if len(ct['args']) > 1 else None
                        if not term_mentions(argt, lambda z: z == ('param', 2)):
                            w.append('closure is not called with the edge argument')
                        if carries_bool:
                            if ret != ('CALL', cbi):
                                w.append('return value is not the closure result itself')
                        elif ret != 'TRUE':
                            w.append('does not return constant true')
                for x in w:
                    if x not in why:
                        why.append(x)
            out.append(Obl('METHOD', b['q'], b['blocks'][tg]['term']['sp'], inst, not why, '; '.join(why) if why else 'ok'))
    return out


def ord1(ctx, flavours):
    """emission position: Pre kernels record before recursing, Post kernels after (labels from the dispatch on Ordering)"""
    F = ctx.F
    out = []
    table = dispatch.kernel_labels(ctx)   # kernel q -> set of 'Enum::Variant' labels
    for K in _sel(ctx, ('Order',), flavours):
        if K.missing or not K.recurse or 'RECORD' not in K.sites:
            out.append(Obl('ORD1', K.q, _w(F, K), 'roles', False, 'roles missing'))
            continue
        labs = table.get(K.q, set())
        ords = {l.split('::')[-1] for l in labs if l.split('::')[-2] == 'Ordering'} if labs else set()
        rb = K.recurse[0][0]
        if K.cfg.dominates(K.sites['RECORD'], rb):
            emit = 'Pre'
        elif K.cfg.dominates(rb, K.sites['RECORD']):
            emit = 'Post'
        else:
            emit = '?'
        ok = ords == {emit}
        out.append(Obl('ORD1', K.q, _w(F, K, 'RECORD'), 'emission position matches the Ordering arm(s) that select this kernel', ok,
                       'selected by %s; records %s the recursive call' % (sorted(ords) or 'no arm', {'Pre': 'before', 'Post': 'after', '?': 'neither strictly before nor after'}[emit])))
    return out
