"""Traversal kernels: discovery by parameter types, role extraction by type and provenance.

A kernel is any crate function with a `&mut HashSet<K>` parameter and a
`&mut VecDeque|Vec|BinaryHeap<[Reverse<]Node<..>[>]>` parameter.  Roles (DESIGN §4):
FRONTIER VISITED RESULT TAKE ITER ITEM EDGE EXEC FAR CONTAINS INSERT RECORD ADVANCE
RECURSE FOUND TARGETEQ.  Extraction never looks at local-variable names.
"""
import re
from .core import (Obl, calls_in, callee_name, proj_field, pretty, term_mentions, term_calls, strip_payload, FLAVOURS)

HASHSET = re.compile(r'^(std::collections::HashSet|ahash::AHashSet|ahash::HashSet|std::collections::BTreeSet|std::collections::hash_set::HashSet|std::collections::btree_set::BTreeSet)$')
FRONT_ADT = re.compile(r'^(std::collections::\w+|std::vec::Vec)$')   # any std collection of nodes can serve as a frontier; FRONT judges which
NODE_ITER_T = re.compile(r'::node::(IterOut|IterIn|NodeIterator)$')
TAKE_M = {'pop_front', 'pop_back', 'pop', 'pop_first', 'pop_last'}
ADD_M = {'push_back', 'push_front', 'push', 'insert'}


def key_of(t):
    return ('f', ('f', t, '0'), '0')


def _ref_mut_to(F, tyid):
    t = F.types[tyid]
    if t['k'] == 'ref' and t.get('m'):
        return F.types[t['a'][0]], t['a'][0]
    return None, None


def kernel_params(F, b):
    """(visited param, frontier param, result param|None) or None.
    visited = `&mut <set>` whose elements are keys (no Node inside); frontier = `&mut <std collection>` of Nodes (no Edge inside);
    result = `&mut Vec<Edge>`.  A builder method that has two node collections but no key set is still a kernel
    (returned with visited = -1) so that the role check can say what is wrong instead of the kernel silently vanishing."""
    vis = front = result = None
    node_colls = []
    for i in range(1, b['argc'] + 1):
        inner, iid = _ref_mut_to(F, b['locals'][i])
        if inner is None or inner['k'] != 'adt':
            continue
        has_node = F.ty_has_adt(iid, r'::node::Node$')
        has_edge = F.ty_has_adt(iid, r'::node::Edge$')
        if HASHSET.match(inner['p']) and not has_node:
            vis = i
        elif FRONT_ADT.match(inner['p']):
            if has_edge and inner['p'] == 'std::vec::Vec':
                result = i
            elif has_node and not has_edge:
                node_colls.append((i, inner['p']))
    if vis and node_colls:
        return vis, node_colls[0][0], result
    if vis and not node_colls and re.search(r'::node::algo::\w+::\w+$', b.get('impl_self_q', '')):
        # implicit-stack form: the node to expand is a parameter and the recursion is the stack
        node_ps = []
        for i in range(2, b['argc'] + 1):
            t = F.types[b['locals'][i]]
            inner = F.types[t['a'][0]] if t['k'] == 'ref' and t.get('a') else t
            if inner['k'] == 'adt' and re.search(r'::node::Node$', inner['p']):
                node_ps.append(i)
        recursive = any(t.get('local') and t.get('res') == b['q'] for bi, t in calls_in(b))
        if len(node_ps) == 1 and recursive:
            return vis, ('node', node_ps[0]), result
    if not vis and len(node_colls) >= 2 and re.search(r'::node::algo::\w+::\w+$', b.get('impl_self_q', '')):
        # the "visited" collection holds nodes: membership is then decided by Node's Eq/Ord, i.e. by *value* for ordered sets
        sets = [x for x in node_colls if re.search(r'Set$', x[1])]
        fronts = [x for x in node_colls if x not in sets[:1]]
        if sets and fronts:
            return -sets[0][0], fronts[0][0], result
    return None


class Kernel:
    pass


def is_exec_callee(F, t):
    """EXEC by type: local inherent method of an enum with a `dyn FnMut` carrying variant, (&mut self,&Edge)->bool"""
    q = t.get('res') if t.get('local') else None
    if not q or q not in F.bodies:
        return False
    cb = F.bodies[q]
    if cb['impl_trait'] or cb['argc'] != 2:
        return False
    adt = F.adts.get(cb['impl_self_q'])
    if not adt or adt['kind'] != 'Enum':
        return False
    has_dyn = any(any(tt['k'] == 'dyn' for tt in F.ty_walk(f['ty'])) for v in adt['variants'] for f in v['fields'])
    if not has_dyn:
        return False
    return F.types[cb['locals'][0]]['s'] == 'bool'


def _eta_edge(term, bases):
    """`Edge(x.0, x.1, x.2)` (fields possibly cloned / re-bound by a destructuring let) is `x`"""
    from .core import deep_unwrap
    t = term
    while isinstance(t, tuple) and t and t[0] == 'v':
        t = t[1]
    if isinstance(t, tuple) and t and t[0] == 'aggr' and t[1].endswith('::Edge::Edge') and len(t[2]) == 3:
        for x in bases:
            if x is None:
                continue
            if all(deep_unwrap(t[2][i]) == deep_unwrap(proj_field(x, str(i))) for i in range(3)):
                return x
    return term


def discover(F):
    ks = []
    for q, b in sorted(F.bodies.items()):
        if b['kind'] == 'Closure':
            continue
        if q in getattr(F, 'absorbed', ()):
            continue   # a helper that exists only as part of its calling kernel(s)
        p = kernel_params(F, b)
        if p:
            ks.append(analyse(F, b, p))
    return ks


def analyse(F, b, params):
    K = Kernel()
    K.b = b
    K.q = b['q']
    K.flavour = F.flavour(b)
    K.family = b['impl_self_q'].split('::')[-1]  # Bfs / Dfs / Pfs / Order
    K.name = b['name']
    K.cfg = cfg = F.cfg(b)
    K.pv = pv = F.prov(b)
    K.missing = []   # mandatory roles that could not be found
    K.notes = []
    vis, front, result = params
    if vis < 0:
        K.vis, K.front, K.result = -vis, front, result
        K.sites = {}
        K.FAR = K.edge_term = K.item = None
        K.front_adt = _ref_mut_to(F, b['locals'][front])[0]['p']
        K.front_reverse = False
        K.recurse = []
        K.rets = K.founds = []
        K.missing.append('VISITED: the visited collection %s holds nodes, not keys (set membership of nodes follows their ordering by *value*, so two nodes with equal values count as one)' %
                         F.types[b['locals'][-vis]]['s'])
        return K
    K.node_param = None
    if isinstance(front, tuple):
        K.node_param = front[1]
        front = None
    K.vis, K.front, K.result = vis, front, result
    if front is not None:
        fin, fid = _ref_mut_to(F, b['locals'][front])
        K.front_adt = fin['p']
        K.front_reverse = F.ty_has_adt(fid, r'^std::cmp::Reverse$')
    else:
        K.front_adt = '<recursion>'
        K.front_reverse = False
    K.sites = {}
    K.FAR = K.edge_term = K.item = None

    def recv_is(t, param):
        return bool(t['args']) and strip_payload(pv.of_operand(t['args'][0])) == ('param', param)

    # frontier ops
    K.front_ops = [(bi, callee_name(t).split('::')[-1], t) for bi, t in calls_in(b, lambda t: recv_is(t, front))] if front is not None else []
    takes = [(bi, m, t) for bi, m, t in K.front_ops if m in TAKE_M]
    adds = [(bi, m, t) for bi, m, t in K.front_ops if m in ADD_M]
    K.takes, K.adds = takes, adds
    if K.node_param is not None:
        K.sites['TAKE'] = 0
        K.take_m = 'param'
    elif len(takes) != 1:
        K.missing.append('TAKE(%d)' % len(takes))
    else:
        K.sites['TAKE'] = takes[0][0]
        K.take_m = takes[0][1]

    # ITER / ITEM: next() on a node iterator
    def is_node_next(t):
        if t['callee'] != 'std::iter::Iterator::next' or not t['gargs']:
            return False
        return bool(NODE_ITER_T.search(F.types[t['gargs'][0]].get('p', '')))
    nexts = calls_in(b, is_node_next)
    K.buffered = False
    if not nexts:
        # accepted for everything but C20's liveness clause: the edges of the taken node are first collected, then walked
        cand = []
        for bi, t in calls_in(b, lambda t: t['callee'] == 'std::iter::Iterator::next'):
            src = pv.of_operand(t['args'][0])
            cs = term_calls(src)
            if any(c[1] == 'std::iter::Iterator::collect' for c in cs) and any(re.search(r'::node::Node::(iter_out|iter_in|iter)$', c[1]) for c in cs) and \
                    not any(c[1].startswith('std::iter::Iterator::') and c[1].split('::')[-1] in ('rev', 'skip', 'take', 'filter', 'step_by', 'skip_while', 'take_while', 'filter_map') for c in cs):
                cand.append((bi, t))
        if len(cand) == 1:
            nexts = cand
            K.buffered = True
    K.n_next = len(nexts)
    if len(nexts) != 1:
        buffered = [t for bi, t in calls_in(b, lambda t: t['callee'] == 'std::iter::Iterator::next') if
                    any(re.search(r'::node::Node::(iter_out|iter_in|iter)$', c[1]) for c in term_calls(pv.of_operand(t['args'][0])))]
        K.missing.append('ITEM(%d live next() sites on a node iterator%s)' % (len(nexts), '; edges are walked from a collected snapshot, not live' if buffered else ''))
        return K
    nbi, nt = nexts[0]
    K.sites['NEXT'] = nbi
    K.iter_type = F.types[nt['gargs'][0]].get('p', '?').split('::')[-1]
    iter_term = pv.of_operand(nt['args'][0])
    ctor = None
    for c in term_calls(iter_term):
        m = re.search(r'::node::Node::(iter_out|iter_in|iter)$', c[1])
        if m:
            ctor = (m.group(1), c[2][0] if c[2] else None, c[3])
            break
        m = re.search(r'^<&(\w+)::node::Node as std::iter::IntoIterator>::into_iter$', c[1])
        if m:
            ctor = ('into_iter', c[2][0] if c[2] else None, c[3])
            break
    K.iter_ctor = ctor[0] if ctor else None
    K.iter_on_taken = False
    if ctor is None:
        K.missing.append('ITER')
    else:
        K.sites['ITER'] = ctor[2]
        recv = ctor[1]
        if K.node_param is not None:
            K.iter_on_taken = strip_payload(recv) == ('param', K.node_param)
        elif takes:
            tk = takes[0][2]
            K.iter_on_taken = term_mentions(recv, lambda x: isinstance(x, tuple) and x and x[0] == 'call' and x[1] == callee_name(tk) and x[3] == takes[0][0])
    item_opt = ('call', callee_name(nt), tuple(pv.of_operand(a) for a in nt['args']), nbi)
    K.item = proj_field(('v', item_opt, 'Some#1'), '0')
    # next() result switch: Some edge / None edge
    K.next_dst = nt['dst']['l']

    # EXEC
    execs = calls_in(b, lambda t: is_exec_callee(F, t))
    K.n_exec = len(execs)
    if len(execs) != 1:
        K.missing.append('EXEC(%d sites)' % len(execs))
        return K
    ebi, et = execs[0]
    K.sites['EXEC'] = ebi
    edge_term = pv.of_operand(et['args'][1])
    K.edge_term = edge_term
    it = K.item
    if edge_term == it:
        K.edge_kind = 'ITEM'
    elif (isinstance(edge_term, tuple) and edge_term[0] == 'aggr' and edge_term[1].endswith('::Edge::Edge')
          and edge_term[2] == (proj_field(it, '1'), proj_field(it, '0'), proj_field(it, '2'))):
        K.edge_kind = 'REV'
    else:
        K.edge_kind = 'OTHER:' + pretty(edge_term)[:80]
    K.FAR = FAR = proj_field(edge_term, '1')
    KEYFAR = key_of(FAR)
    K.exec_true, K.exec_false = cfg.bool_edges(et['dst']['l'], et['target'])
    if K.exec_true is None:
        K.missing.append('EXEC-branch')

    # CONTAINS / INSERT on VISITED
    def on_vis(t, meth):
        return callee_name(t).split('::')[-1] == meth and recv_is(t, vis)
    conts = calls_in(b, lambda t: on_vis(t, 'contains'))
    inserts = calls_in(b, lambda t: on_vis(t, 'insert'))
    K.n_contains, K.n_insert = len(conts), len(inserts)
    K.notvis = None
    K.vis_true = None
    K.insert_is_test = False
    K.contains_key = K.insert_key = None
    once_key = None
    if not inserts:
        # `visited.extend(std::iter::once(k))` marks exactly k: the same mark as insert(k), without its result
        for xbi, xt in calls_in(b, lambda t: on_vis(t, 'extend')):
            xa = strip_payload(pv.of_operand(xt['args'][1])) if len(xt['args']) > 1 else None
            if isinstance(xa, tuple) and xa and xa[0] == 'call' and xa[1] in ('std::iter::once', 'core::iter::once') and xa[2]:
                once_key = (xbi, xt, xa[2][0]) if once_key is None else False
    if once_key:
        K.sites['INSERT'] = once_key[0]
        K.insert_key = once_key[2]
        K.n_insert = 1
    elif len(inserts) != 1:
        K.missing.append('INSERT(%d)' % len(inserts))
    else:
        ibi, itt = inserts[0]
        K.sites['INSERT'] = ibi
        K.insert_key = pv.of_operand(itt['args'][1])
    if len(conts) == 1:
        cbi, ct = conts[0]
        K.sites['CONTAINS'] = cbi
        K.contains_key = pv.of_operand(ct['args'][1])
        te, fe = cfg.bool_edges(ct['dst']['l'], ct['target'])
        K.notvis = fe
        K.vis_true = te
        if fe is None:
            K.missing.append('CONTAINS-branch')
    elif len(conts) == 0 and len(inserts) == 1:
        # accepted idiom: `if visited.insert(k) { .. }` -- true edge of insert is the not-visited edge
        ibi, itt = inserts[0]
        te, fe = cfg.bool_edges(itt['dst']['l'], itt['target'])
        if te is not None:
            K.notvis = te
            K.vis_true = fe
            K.sites['CONTAINS'] = ibi
            K.contains_key = K.insert_key
            K.notes.append('visited test by insert() result')
            K.insert_is_test = True
        else:
            K.missing.append('CONTAINS(0)')
    else:
        K.missing.append('CONTAINS(%d)' % len(conts))

    # RECORD
    K.record_term = None
    if result:
        recs = calls_in(b, lambda t: callee_name(t).split('::')[-1] == 'push' and recv_is(t, result))
        K.n_record = len(recs)
        if len(recs) != 1:
            K.missing.append('RECORD(%d)' % len(recs))
        else:
            K.sites['RECORD'] = recs[0][0]
            K.record_term = _eta_edge(pv.of_operand(recs[0][1]['args'][1]), [K.edge_term, K.item])
        K.result_other_ops = [callee_name(t).split('::')[-1] for bi, t in calls_in(b, lambda t: recv_is(t, result)) if callee_name(t).split('::')[-1] != 'push']
    # ADVANCE
    K.advance_term = None
    if K.node_param is not None:
        rc = calls_in(b, lambda t: t.get('local') and t.get('res') == b['q'])
        if len(rc) != 1:
            K.missing.append('ADVANCE(%d recursive descents)' % len(rc))
        else:
            K.sites['ADVANCE'] = rc[0][0]
            K.add_m = 'recurse'
            K.advance_wrapped = False
            K.advance_term = strip_payload(pv.of_operand(rc[0][1]['args'][K.node_param - 1]))
    elif len(adds) != 1:
        K.missing.append('ADVANCE(%d)' % len(adds))
    else:
        K.sites['ADVANCE'] = adds[0][0]
        K.add_m = adds[0][1]
        at = pv.of_operand(adds[0][2]['args'][1])
        K.advance_wrapped = False
        if isinstance(at, tuple) and at[0] == 'aggr' and at[1] == 'adt:std::cmp::Reverse::Reverse':
            at = at[2][0]
            K.advance_wrapped = True
        K.advance_term = at
    # RECURSE: calls to self
    recs = calls_in(b, lambda t: t.get('local') and t.get('res') == b['q'])
    K.recurse = recs
    if recs:
        K.sites['RECURSE'] = recs[0][0]
    # FOUND blocks: _0 = true / Some(x) / propagate
    founds = []
    regions = b.get('inl_regions', [])
    ret_locals = {0} | {r['ret'] for r in regions}
    for bi, bb in enumerate(b['blocks']):
        if bb['cleanup'] or bi not in cfg.reach:
            continue
        for s in bb['stmts']:
            if s['k'] == 'assign' and s['dst']['l'] in ret_locals and not s['dst']['p']:
                rv = s['rv']
                if s['dst']['l'] == 0 and rv['k'] == 'use' and rv['ops'][0]['k'] == 'const' and any(
                        cfg.dominates(r['entry'], bi) and not (r['entry'] <= bi < r['end']) and _region_decides(b, r) for r in regions):
                    # the caller returning what an inlined helper decided
                    founds.append((bi, 'propagate', None))
                    continue
                if s['dst']['l'] != 0 and rv['k'] == 'use' and rv['ops'][0]['k'] in ('move', 'copy'):
                    continue
                if rv['k'] == 'use' and rv['ops'][0]['k'] == 'const':
                    v = rv['ops'][0]['v']
                    if v in ('const true', 'true'):
                        founds.append((bi, 'true', None))
                    elif v in ('const false', 'false'):
                        founds.append((bi, 'false', None))
                    else:
                        founds.append((bi, 'const', v))
                elif rv['k'] == 'aggr' and rv['ak'].endswith('Option::Some'):
                    founds.append((bi, 'some', pv.of_operand(rv['ops'][0])))
                elif rv['k'] == 'aggr' and rv['ak'].endswith('Option::None'):
                    founds.append((bi, 'none', None))
                elif rv['k'] == 'use' and rv['ops'][0]['k'] in ('move', 'copy'):
                    pt = pv.of_operand(rv['ops'][0])
                    p0 = pt
                    while isinstance(p0, tuple) and p0 and p0[0] == 'v':
                        p0 = p0[1]
                    if not rv['ops'][0]['pl']['p'] and isinstance(p0, tuple) and p0 and p0[0] == 'aggr' and p0[1].endswith('Option::Some') and len(p0[2]) == 1:
                        founds.append((bi, 'some', p0[2][0]))       # `let r = Some(x); .. _0 = r`
                    elif not rv['ops'][0]['pl']['p'] and isinstance(p0, tuple) and p0 and p0[0] == 'aggr' and p0[1].endswith('Option::None'):
                        founds.append((bi, 'none', None))
                    else:
                        founds.append((bi, 'propagate', pt))
                else:
                    founds.append((bi, 'other', None))
    K.rets = founds
    K.founds = [(bi, k, t) for bi, k, t in founds if k in ('true', 'some', 'propagate')]
    # TARGETEQ: eq(key(FAR), <something derived from self>)
    K.teq_true = None
    K.teq_site = None
    for bi, t in calls_in(b, lambda t: t['callee'] in ('std::cmp::PartialEq::eq', 'std::cmp::PartialEq::ne')):
        a0 = strip_payload(pv.of_operand(t['args'][0]))
        a1 = strip_payload(pv.of_operand(t['args'][1]))
        def some_of(z):
            # Some(k) compared with the target option as a whole: `Some(v.key()) == self.target.as_ref()`
            if isinstance(z, tuple) and z and z[0] == 'aggr' and z[1].endswith('Option::Some') and len(z[2]) == 1:
                return strip_payload(z[2][0])
            return z

        def opt_of(z):
            while isinstance(z, tuple) and z and z[0] == 'call' and z[1] in ('std::option::Option::as_ref', 'std::option::Option::as_deref', 'std::option::Option::as_mut') and z[2]:
                z = strip_payload(z[2][0])
            return z
        if some_of(a0) is not a0 or some_of(a1) is not a1:
            a0, a1 = (some_of(a0), opt_of(a1)) if some_of(a0) is not a0 else (opt_of(a0), some_of(a1))
        for x, y in ((a0, a1), (a1, a0)):
            if x == KEYFAR and term_mentions(y, lambda z: z == ('param', 1)):
                te, fe = cfg.bool_edges(t['dst']['l'], t['target'])
                if te is None:
                    # the comparison result travels (helper return value, `match .. None => false`): branch on a value that is this
                    # call, or this call joined with constant false -- its true edge still implies the comparison was true
                    me = ('call', callee_name(t), tuple(pv.of_operand(a) for a in t['args']), bi)
                    for sb in sorted(cfg.reach):
                        st = b['blocks'][sb]['term']
                        if st['k'] != 'switch':
                            continue
                        term = pv.of_operand(st['op'])
                        alts = list(term[1]) if isinstance(term, tuple) and term and term[0] == 'join' else [term]
                        if me in alts and all(a == me or a == ('const', 'false') for a in alts):
                            z = [tg for v, tg in st['targets'] if v == 0]
                            if z:
                                te, fe = (sb, st['otherwise']), (sb, z[0])
                if t['callee'].endswith('::ne'):
                    te, fe = fe, te
                K.teq_true = te
                K.teq_site = bi
                K.teq_other = y
    if K.teq_true is None:
        # accepted idiom: self.target.as_ref().map_or(false, |t| key == t)  /  is_some_and(|t| ..)
        from .core import closure_result, deep_unwrap
        for bi, t in calls_in(b, lambda t: callee_name(t) in ('std::option::Option::map_or', 'std::option::Option::is_some_and')):
            subj = deep_unwrap(pv.of_operand(t['args'][0]))
            if not term_mentions(subj, lambda z: z == ('param', 1)):
                continue
            if callee_name(t).endswith('map_or') and deep_unwrap(pv.of_operand(t['args'][1])) != ('const', 'false'):
                continue
            clo = pv.of_operand(t['args'][-1])
            X = ('opt-payload',)
            cr = closure_result(F, clo, [X])
            cr = deep_unwrap(cr) if cr is not None else None
            if isinstance(cr, tuple) and cr and cr[0] == 'call' and cr[1] in ('std::cmp::PartialEq::eq',) or (isinstance(cr, tuple) and cr and cr[0] == 'call' and cr[1].endswith('PartialEq<&B>>::eq')):
                a0, a1 = cr[2][0], cr[2][1]
                KF = deep_unwrap(KEYFAR)
                if (a0 == KF and a1 == X) or (a1 == KF and a0 == X):
                    te, fe = cfg.bool_edges(t['dst']['l'], t['target'])
                    if te is None:
                        me = ('call', callee_name(t), tuple(pv.of_operand(a) for a in t['args']), bi)
                        for sb in sorted(cfg.reach):
                            st = b['blocks'][sb]['term']
                            if st['k'] != 'switch':
                                continue
                            term = pv.of_operand(st['op'])
                            alts = list(term[1]) if isinstance(term, tuple) and term and term[0] == 'join' else [term]
                            if me in alts and all(a == me or a == ('const', 'false') for a in alts):
                                z = [tg for v, tg in st['targets'] if v == 0]
                                if z:
                                    te, fe = (sb, st['otherwise']), (sb, z[0])
                    if te is not None:
                        K.teq_true = te
                        K.teq_site = bi
                        K.teq_other = subj
    return K


def _region_decides(b, r):
    """the inlined helper itself returns constant true somewhere (it contains the FOUND decision)"""
    for bi in range(r['entry'], r['end']):
        for s in b['blocks'][bi]['stmts']:
            if s['k'] == 'assign' and s['dst']['l'] == r['ret'] and not s['dst']['p'] and s['rv']['k'] == 'use' and s['rv']['ops'][0].get('v') in ('true', 'const true'):
                return True
    return False


def has_target_field(F, K):
    adt = F.adts.get(K.b['impl_self_q'])
    if not adt:
        return False
    return any(f['name'] == 'target' or F.types[f['ty']]['s'].startswith('std::option::Option<K') for v in adt['variants'] for f in v['fields'])
