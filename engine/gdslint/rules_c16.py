"""C16: Send/Sync of the node, edge and graph types, decided for all K,N,E by the trait solver.

W16-pos  with K,N,E: Send+Sync the sync types are Send and Sync           (must compile)
W16-neg  with exactly one of the six bounds removed the obligation fails   (E0277 on the assert line; twin = W16-pos)
W16-plain the plain types are never Send/Sync even with all six bounds      (E0277; twin asserts nothing)
W16-conc concrete payloads Cell / Rc / MutexGuard / *const in each position (E0277; twin = u8 payload)
UNS      unsafe impls / blocks listed from HIR; unsafe impl Send|Sync must bound every parameter by Send + Sync
"""
import re
from .core import Obl, SYNC, PLAIN
from . import witness

PRELUDE = '''#![allow(dead_code, unused)]
use std::{fmt::Display, hash::Hash, marker::PhantomData};
fn assert_send<T: Send>() {}
fn assert_sync<T: Sync>() {}
fn assert_any<T>() {}
pub struct W<T>(u32, PhantomData<T>);
impl<T> Clone for W<T> { fn clone(&self) -> Self { W(self.0, PhantomData) } }
impl<T> PartialEq for W<T> { fn eq(&self, o: &Self) -> bool { self.0 == o.0 } }
impl<T> Eq for W<T> {}
impl<T> Hash for W<T> { fn hash<H: std::hash::Hasher>(&self, h: &mut H) { self.0.hash(h) } }
impl<T> Display for W<T> { fn fmt(&self, f: &mut std::fmt::Formatter) -> std::fmt::Result { write!(f, "{}", self.0) } }
'''
BASE = {'K': 'Clone + Hash + PartialEq + Eq + Display', 'N': 'Clone', 'E': 'Clone'}
TYPES = ('Node', 'Edge', 'Graph')
PAYLOADS = {
    'Cell': 'std::cell::Cell<u64>',                       # Send, !Sync
    'Rc': 'std::rc::Rc<u8>',                              # !Send, !Sync
    'MutexGuard': "std::sync::MutexGuard<'static, u8>",   # Sync, !Send
    'RawPtr': '*const u8',                                # neither
}


def _generic_fn(flavour, ty, trait, dropped=None, asserted=True):
    bounds = {}
    for p in 'KNE':
        extra = [b for b in ('Send', 'Sync') if dropped != (p, b)]
        bounds[p] = BASE[p] + ''.join(' + ' + b for b in extra)
    fn = 'assert_send' if trait == 'Send' else 'assert_sync'
    if not asserted:
        fn = 'assert_any'
    src = PRELUDE + 'pub fn w<K: %s, N: %s, E: %s>() {\n    %s::<gdsl::%s::%s<K, N, E>>(); // ASSERT\n}\n' % (bounds['K'], bounds['N'], bounds['E'], fn, flavour, ty)
    return src


def _concrete_fn(flavour, ty, trait, pos, payload, asserted=True):
    args = {'K': 'W<u8>', 'N': 'W<u8>', 'E': 'W<u8>'}
    if payload:
        args[pos] = 'W<%s>' % PAYLOADS[payload]
    fn = 'assert_send' if trait == 'Send' else 'assert_sync'
    if not asserted:
        fn = 'assert_any'
    return PRELUDE + 'pub fn w() {\n    %s::<gdsl::%s::%s<%s, %s, %s>>(); // ASSERT\n}\n' % (fn, flavour, ty, args['K'], args['N'], args['E'])


def _assert_line(src):
    for i, l in enumerate(src.splitlines(), 1):
        if '// ASSERT' in l:
            return i
    return None


def w16(ctx, thorough=None):
    thorough = ctx.tier == 'thorough' if thorough is None else thorough
    jobs = []
    expect = {}

    def add(name, src, should_compile, rule, inst, twin=None):
        jobs.append({'name': name, 'src': src})
        expect[name] = (should_compile, rule, inst, _assert_line(src), twin)
    for fl in SYNC:
        for ty in TYPES:
            for tr in ('Send', 'Sync'):
                pos = 'pos_%s_%s_%s' % (fl, ty, tr)
                add(pos, _generic_fn(fl, ty, tr), True, 'W16-pos', '%s::%s<K,N,E>: %s when K,N,E: Send+Sync' % (fl, ty, tr))
                for p in 'KNE':
                    for b in ('Send', 'Sync'):
                        add('neg_%s_%s_%s_no%s%s' % (fl, ty, tr, p, b), _generic_fn(fl, ty, tr, dropped=(p, b)), False, 'W16-neg',
                            '%s::%s<K,N,E>: %s must NOT hold without %s: %s' % (fl, ty, tr, p, b), twin=pos)
    for fl in PLAIN:
        for ty in TYPES:
            for tr in ('Send', 'Sync'):
                tw = 'plaintwin_%s_%s_%s' % (fl, ty, tr)
                add(tw, _generic_fn(fl, ty, tr, asserted=False), True, 'W16-twin', 'twin of the plain witness (same path, no auto-trait obligation)')
                add('plain_%s_%s_%s' % (fl, ty, tr), _generic_fn(fl, ty, tr), False, 'W16-plain', '%s::%s<K,N,E> is never %s (even with K,N,E: Send+Sync)' % (fl, ty, tr), twin=tw)
    # concrete payloads
    for fl in SYNC:
        types = TYPES if thorough else ('Node',)
        for ty in types:
            for tr in ('Send', 'Sync'):
                tw = 'conctwin_%s_%s_%s' % (fl, ty, tr)
                add(tw, _concrete_fn(fl, ty, tr, 'K', None), True, 'W16-twin', 'twin of the concrete witnesses (u8 payloads): %s::%s: %s' % (fl, ty, tr))
                for i, p in enumerate('KNE'):
                    pls = list(PAYLOADS) if thorough else [list(PAYLOADS)[(i + (0 if tr == 'Send' else 1)) % 4], list(PAYLOADS)[(i + 2) % 4]]
                    for pl in pls:
                        add('conc_%s_%s_%s_%s_%s' % (fl, ty, tr, p, pl), _concrete_fn(fl, ty, tr, p, pl), False, 'W16-conc',
                            '%s::%s with %s = %s is not %s' % (fl, ty, p, pl, tr), twin=tw)
    res, rmeta = witness.run_many(jobs, rmeta=getattr(ctx, 'rmeta', None))
    out = []
    for name, (should, rule, inst, line, twin) in expect.items():
        ok_c, diags = res[name]
        where = 'witness %s.rs:%s' % (name, line)
        if should:
            ok = ok_c
            why = 'compiles' if ok else 'does not compile: ' + '; '.join('%s@%s %s' % (d['code'], d['line'], d['message'][:80]) for d in diags[:2])
        else:
            e277 = [d for d in diags if d['code'] == 'E0277' and d['line'] == line]
            other = [d for d in diags if not (d['code'] == 'E0277' and d['line'] == line)]
            twin_ok = res[twin][0] if twin else True
            ok = (not ok_c) and bool(e277) and not other and twin_ok
            if ok_c:
                why = 'compiles: the type is %s although the bound is missing (an unsafe impl promises too much)' % ('Send' if '_Send' in name else 'Sync')
            elif not e277 or other:
                why = 'fails for another reason: ' + '; '.join('%s@%s %s' % (d['code'], d['line'], d['message'][:80]) for d in (other or diags)[:2])
            elif not twin_ok:
                why = 'positive twin does not compile (witness path is wrong)'
            else:
                why = 'rejected with E0277 on the assert line; twin compiles'
        out.append(Obl(rule, 'gdsl::' + name.split('_', 1)[1] if '_' in name else name, where, inst, ok, why))
    ctx.cache.setdefault('evidence_extra', {}).setdefault('C16', {})['witness_programs'] = len(jobs)
    return out


def uns(ctx):
    """unsafe constructs listed from HIR; every `unsafe impl Send|Sync` bounds each parameter by Send and Sync"""
    F = ctx.F
    out = []
    user_blocks = [u for u in F.unsafe_blocks if u.get('user')]
    out.append(Obl('UNS', 'crate', '-', 'no user-written unsafe block (%d compiler-generated scanned)' % (len(F.unsafe_blocks) - len(user_blocks)), not user_blocks,
                   'none' if not user_blocks else ', '.join('%s@%s' % (u['fn'], u['span']) for u in user_blocks)))
    ufns = [f for f in F.fns.values() if f.get('unsafe')]
    out.append(Obl('UNS', 'crate', '-', 'no unsafe fn (%d signatures scanned)' % len(F.fns), not ufns, 'none' if not ufns else ', '.join(f['q'] for f in ufns)))
    for im in F.impls:
        if not im.get('unsafe'):
            continue
        tr = im['trait']
        if tr not in ('std::marker::Send', 'std::marker::Sync'):
            out.append(Obl('UNS', im['self_q'], im['span'], 'unsafe impl %s' % tr, False, 'unexpected unsafe impl'))
            continue
        preds = im['preds']
        params = sorted({p.split(':')[0].strip() for p in preds if re.match(r'^[A-Z]\w*: ', p)})
        missing = []
        for p in params:
            for b in ('std::marker::Send', 'std::marker::Sync'):
                if '%s: %s' % (p, b) not in preds:
                    missing.append('%s: %s' % (p, b.split('::')[-1]))
        out.append(Obl('UNS', im['self_q'], im['span'], 'unsafe impl %s for %s requires Send + Sync of every parameter' % (tr.split('::')[-1], im['self_q'].split('::')[-1]),
                       not missing, 'missing bounds: ' + ', '.join(missing) if missing else 'all of %s bounded by Send + Sync' % ','.join(params)))
    return out


# ---------------------------------------------------------------------------------------------------------------------
# UNS-struct: an `unsafe impl Send|Sync for T` must not assert more than the compiler would derive from T's fields when
# every type parameter is Send + Sync (which the impl's bounds require, see UNS).  The derivation is the auto-trait rule
# applied structurally, with the documented impls of the std containers / cells / locks, coinductively for recursive types.
_STRUCTURAL = re.compile(r'^(std::vec::Vec|std::collections::\w+(::\w+)*|std::option::Option|std::result::Result|std::boxed::Box|std::cmp::Reverse|std::marker::PhantomData|'
                         r'std::string::String|ahash::\w+(::\w+)*|std::hash::\w+|std::ops::Range\w*|std::num::\w+|std::mem::ManuallyDrop|std::pin::Pin)$')


def _auto(F, ty, trait, assume, why, depth=0):
    """does type id `ty` implement `trait` ('Send'|'Sync') given all type parameters are Send + Sync?  `assume`: local ADTs in progress"""
    t = F.types[ty]
    k = t['k']
    if depth > 40:
        return True
    if k in ('prim', 'param'):
        return True
    if k == 'ref':
        inner = t['a'][0]
        if t.get('m'):
            return _auto(F, inner, trait, assume, why, depth + 1)
        return _auto(F, inner, 'Sync', assume, why, depth + 1)
    if k in ('tuple', 'slice', 'array'):
        return all(_auto(F, a, trait, assume, why, depth + 1) for a in t['a'])
    if k == 'adt':
        p = t['p']
        args = t.get('a', [])

        def all_args(tr):
            return all(_auto(F, a, tr, assume, why, depth + 1) for a in args)
        if p in ('std::sync::Arc', 'std::sync::Weak'):
            return all_args('Send') and all_args('Sync')
        if p in ('std::rc::Rc', 'std::rc::Weak'):
            why.append('%s is never %s' % (t['s'][:60], trait))
            return False
        if p == 'std::sync::RwLock':
            return all_args('Send') and (trait == 'Send' or all_args('Sync'))
        if p == 'std::sync::Mutex':
            return all_args('Send')
        if p in ('std::cell::RefCell', 'std::cell::Cell', 'std::cell::UnsafeCell', 'std::cell::OnceCell'):
            if trait == 'Sync':
                why.append('%s is never Sync' % t['s'][:70])
                return False
            return all_args('Send')
        if p.startswith('std::sync::atomic::') or p in ('std::sync::Once', 'std::sync::Condvar', 'std::sync::Barrier', 'std::alloc::Global', 'std::hash::RandomState', 'ahash::RandomState'):
            return True
        if p in ('std::sync::MutexGuard', 'std::sync::RwLockReadGuard', 'std::sync::RwLockWriteGuard'):
            if trait == 'Send':
                why.append('%s is never Send' % t['s'][:60])
                return False
            return all_args('Sync')
        if p in ('std::cell::Ref', 'std::cell::RefMut', 'std::ptr::NonNull'):
            why.append('%s is never %s' % (t['s'][:60], trait))
            return False
        if t.get('local') and p in F.adts:
            if (p, trait) in assume:
                return True
            assume = assume | {(p, trait)}
            return all(_auto(F, f['ty'], trait, assume, why, depth + 1) for v in F.adts[p]['variants'] for f in v['fields'])
        if _STRUCTURAL.match(p):
            return all_args(trait)
        why.append('cannot derive %s for %s (type not in the table)' % (trait, t['s'][:70]))
        return False
    if k == 'dyn':
        ok = ('std::marker::' + trait) in t['s']
        if not ok:
            why.append('%s has no %s bound' % (t['s'][:60], trait))
        return ok
    why.append('cannot derive %s for %s' % (trait, t.get('s', '?')[:70]))
    return False


def uns_struct(ctx):
    F = ctx.F
    out = []
    for im in F.impls:
        if not im.get('unsafe') or im['trait'] not in ('std::marker::Send', 'std::marker::Sync'):
            continue
        tr = im['trait'].split('::')[-1]
        adt = F.adts.get(im['self_q'])
        if adt is None:
            out.append(Obl('UNS-struct', im['self_q'], im['span'], 'unsafe impl %s: fields derivable' % tr, False, 'self type is not a crate ADT'))
            continue
        why = []
        ok = all(_auto(F, f['ty'], tr, frozenset({(im['self_q'], tr)}), why) for v in adt['variants'] for f in v['fields'])
        out.append(Obl('UNS-struct', im['self_q'], im['span'], 'unsafe impl %s for %s asserts no more than its fields give when K, N, E: Send + Sync' % (tr, im['self_q'].split('::')[-1]),
                       ok, '; '.join(sorted(set(why))) if why else 'derivable from the field types (Arc / Weak / RwLock / Vec of parameters)'))
    return out
