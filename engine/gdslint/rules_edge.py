"""Edge-operation rules: P1 P2 P3 (pairing), T1 T2, RM1 (first-match removal), SYM, OBS, GET-ADJ, ARITH, ENC, HANDLE."""
import re
from .core import (Obl, calls_in, callee_name, pretty, strip_payload, unwrap_payload, deep_unwrap, term_calls, term_mentions, proj_field,
                   DIRECTED, UNDIRECTED, FLAVOURS)
from .effects import AdjModel, node_events, footprint, mutating_calls, owner_of, READ_OPS, MUT_OK, adjacent_path
from .kernels import key_of
from .guards import ACQ

P1_, P2_, P3_ = ('param', 1), ('param', 2), ('param', 3)
REMOVAL_OPS = {'remove', 'swap_remove', 'drain', 'retain', 'pop', 'truncate', 'split_off', 'extract_if', 'dedup', 'dedup_by', 'dedup_by_key'}


def model(ctx, fl):
    ms = ctx.cache.setdefault('adjmodel', {})
    if fl not in ms:
        M = AdjModel(ctx.F, fl)
        # roles from connect: the list pushed at self is OUT, the list pushed at other is IN
        b = ctx.F.find(fl, 'node::Node::connect')
        if b is not None:
            for bi, mq, own, args, t, mode in node_events(ctx.F, M, b):
                mu = M.muts(mq)
                if len(mu) == 1:
                    f, op = next(iter(mu))
                    if op == 'push' and own == P1_ and M.OUT is None:
                        M.OUT = f
                    elif op == 'push' and own == P2_ and M.IN is None:
                        M.IN = f
        ms[fl] = M
    return ms[fl]


def _node_fn(F, fl, name):
    return F.find(fl, 'node::Node::' + name)


def _missing(rule, fl, name):
    return Obl(rule, '%s::node::Node::%s' % (fl, name), '-', 'public operation present', False, 'anchor missing')


def _must_pass(cfg, site):
    """every path entry -> return passes through block `site`"""
    return not any(cfg.path_exists(0, r, avoiding={site}) for r in cfg.returns) if site != 0 else True


def p1_connect(ctx, flavours):
    F = ctx.F
    out = []
    for fl in flavours:
        b = _node_fn(F, fl, 'connect')
        if b is None:
            out.append(_missing('P1', fl, 'connect'))
            continue
        M = model(ctx, fl)
        cfg = F.cfg(b)
        evs = [e for e in node_events(F, M, b) if M.muts(e[1])]
        why = []
        if M.OUT is None or M.IN is None or M.OUT == M.IN:
            why.append('cannot derive OUT/IN list roles from connect (OUT=%s IN=%s)' % (M.OUT, M.IN))
        sig = sorted((pretty(own), M.role(f), op) for bi, mq, own, args, t, mode in evs for f, op in M.muts(mq))
        if sig != [('P1', 'OUT', 'push'), ('P2', 'IN', 'push')]:
            why.append('effects are %s, expected exactly {(self,OUT,push),(other,IN,push)}' % sig)
        else:
            for bi, mq, own, args, t, mode in evs:
                tup = args[0] if args else None
                peer = P2_ if own == P1_ else P1_
                if not (isinstance(tup, tuple) and tup[0] == 'aggr' and tup[1] == 'tuple' and len(tup[2]) == 2 and strip_payload(tup[2][0]) == peer and strip_payload(tup[2][1]) == P3_):
                    why.append('%s pushes %s, expected (%s, value)' % (pretty(own), pretty(tup), pretty(peer)))
                if not _must_pass(cfg, bi):
                    why.append('push at %s is not on every path' % pretty(own))
            # the stored entry: (downgrade(edge.0), edge.1)
            for bi, mq, own, args, t, mode in evs:
                mb = F.bodies[mq]
                mpv = F.prov(mb)
                pushes = [(pbi, pt) for pbi, pt in calls_in(mb) if callee_name(pt).endswith('Vec::push')]
                if len(pushes) != 1:
                    why.append('%s: %d Vec::push calls' % (mq.split('::')[-1], len(pushes)))
                    continue
                ent = mpv.of_operand(pushes[0][1]['args'][1])
                # the peer is stored as a weak reference (downgrade) or as the handle itself: which one is C19's business (OWN1/OWN4)
                ok = isinstance(ent, tuple) and ent[0] == 'aggr' and ent[1] == 'tuple' and len(ent[2]) == 2 and strip_payload(ent[2][1]) == ('f', P2_, '1') and (
                    (isinstance(ent[2][0], tuple) and ent[2][0][0] == 'call' and ent[2][0][1].endswith('::WeakNode::downgrade') and strip_payload(ent[2][0][2][0]) == ('f', P2_, '0')) or
                    strip_payload(ent[2][0]) == ('f', P2_, '0'))
                ok = ok or strip_payload(ent) == P2_   # the (node, value) pair is stored as handed over
                if not ok:
                    why.append('%s stores %s, expected (peer of edge.0, edge.1)' % (mq.split('::')[-1], pretty(ent)))
        out.append(Obl('P1', b['q'], b['span'], 'connect = {(self,OUT,push (other,value)), (other,IN,push (self,value))} on every path', not why, '; '.join(why) if why else 'OUT=field %s IN=field %s' % (M.OUT, M.IN)))
    return out


def _err_variants(F, b):
    """Error variants constructed in b: (block where the error becomes a result, variant).  An error value built eagerly as an argument
    (`.ok_or(Error::X)`) counts where it is wrapped into `Err(..)`, not where the argument is evaluated"""
    out = []
    pv = F.prov(b)
    reach = F.cfg(b).reach
    wrapped = {}
    for bi, bb in enumerate(b['blocks']):
        if bb['cleanup'] or bi not in reach:
            continue
        for s in bb['stmts']:
            if s['k'] == 'assign' and s['rv']['k'] == 'aggr' and s['rv']['ak'].endswith('Result::Err') and s['rv']['ops']:
                tm = strip_payload(pv.of_operand(s['rv']['ops'][0]))
                if isinstance(tm, tuple) and tm and tm[0] == 'aggr' and tm[1].startswith('adt:error::Error::'):
                    wrapped.setdefault(tm[1].split('::')[-1], []).append(bi)
    for bi, bb in enumerate(b['blocks']):
        if bb['cleanup']:
            continue
        for s in bb['stmts']:
            if s['k'] == 'assign' and s['rv']['k'] == 'aggr' and s['rv']['ak'].startswith('adt:error::Error::'):
                v = s['rv']['ak'].split('::')[-1]
                if v in wrapped:
                    for wb in wrapped[v]:
                        if (wb, v) not in out:
                            out.append((wb, v))
                else:
                    out.append((bi, v))
    return out


def error_set(ctx, b, seen=None):
    """Error variants b can construct or propagate from crate-local callees"""
    F = ctx.F
    seen = seen if seen is not None else set()
    if b['q'] in seen:
        return set()
    seen.add(b['q'])
    es = {v for _, v in _err_variants(F, b)}
    for bi, t in calls_in(b, lambda t: t.get('local') and t.get('res') in F.bodies):
        cb = F.bodies[t['res']]
        if 'error::Error' in F.types[cb['locals'][0]]['s']:
            es |= error_set(ctx, cb, seen)
    return es


def error_profile(ctx, b):
    """per crate-local error-returning callee of b: the variants a failure of that call can surface as -- the callee's own error
    set when its error is propagated (`?`, `Err(e) => Err(e)`), the variants b constructs on the call's failure edge when it is
    replaced (`Err(_) => Err(X)`, `.map_err(|_| X)`, `.ok_or(X)`).  {callee last name: frozenset(variants)}"""
    from .core import outcome_edges
    F = ctx.F
    pv, cfg = F.prov(b), F.cfg(b)
    rt = pv.of_local(0)
    built = _err_variants(F, b)
    prof = {}

    def mentions_call(term, bi):
        return term_mentions(term, lambda z: isinstance(z, tuple) and z and z[0] == 'call' and len(z) > 3 and z[3] == bi)

    def propagated(bi):
        found = []

        def walk(z):
            if not isinstance(z, tuple) or not z:
                return
            if z[0] == 'v' and str(z[2]).split('#')[0] in ('Err', 'Break') and mentions_call(z[1], bi):
                found.append(1)
            if z[0] == 'call' and z[1].endswith('from_residual') and any(mentions_call(a, bi) for a in z[2]):
                found.append(1)
            for y in z:
                if isinstance(y, tuple):
                    walk(y)
        walk(rt)
        return bool(found)
    for bi, t in calls_in(b, lambda t: t.get('local') and t.get('res') in F.bodies):
        cb = F.bodies[t['res']]
        if 'error::Error' not in F.types[cb['locals'][0]]['s']:
            continue
        name = t['res'].split('::')[-1]
        if propagated(bi):
            vs = error_set(ctx, cb)
        else:
            se, fe = outcome_edges(F, b, bi)
            vs = {v for wb, v in built if fe and cfg.edge_dominates(fe[0], fe[1], wb)}
        prof[name] = frozenset(prof.get(name, frozenset()) | vs)
    return prof


def _ok_edge(F, b, call_bi, t):
    """(ok_edge, err_edge) of the branch on the Result returned by call t (match / `?` / is_err / through map_err & co.)"""
    from .core import outcome_edges
    return outcome_edges(F, b, call_bi)


def p2_disconnect_directed(ctx, flavours):
    F = ctx.F
    out = []
    for fl in flavours:
        b = _node_fn(F, fl, 'disconnect')
        if b is None:
            out.append(_missing('P2', fl, 'disconnect'))
            continue
        M = model(ctx, fl)
        cfg, pv = F.cfg(b), F.prov(b)
        evs = [e for e in node_events(F, M, b) if M.muts(e[1])]
        why = []
        KEY1 = key_of(P1_)
        own_sig = []
        first = second = None
        for e in evs:
            bi, mq, own, args, t, mode = e
            mu = M.muts(mq)
            if len(mu) != 1:
                why.append('%s touches %s' % (mq.split('::')[-1], sorted(mu)))
                continue
            f, op = next(iter(mu))
            own_sig.append((pretty(own), M.role(f), op))
            if own == P1_ and M.role(f) == 'OUT' and op in REMOVAL_OPS:
                first = e
            elif M.role(f) == 'IN' and op in REMOVAL_OPS:
                second = e
        if len(evs) != 2 or first is None or second is None:
            why.append('effects are %s, expected {(self,OUT,remove),(peer,IN,remove)}' % own_sig)
        else:
            peer = second[2]
            # peer comes from a lookup of the key parameter in self's OUT list
            lk = [c for c in term_calls(peer) if c[1] in F.bodies]
            ok_lookup = False
            for c in lk:
                cb = F.bodies[c[1]]
                if footprint(F, M, cb) == {M.OUT} and c[2] and strip_payload(c[2][0]) == P1_ and len(c[2]) > 1 and strip_payload(c[2][1]) == P2_:
                    ok_lookup = True
            if not ok_lookup:
                why.append('peer %s is not the result of looking the key up in self\'s OUT list' % pretty(peer))
            k1 = deep_unwrap(first[3][0]) if first[3] else None
            if k1 not in (P2_, deep_unwrap(key_of(peer))):
                why.append('own removal keyed by %s' % pretty(k1))
            k2 = strip_payload(second[3][0]) if second[3] else None
            if k2 != KEY1:
                why.append('mirror removal keyed by %s, not key(self)' % pretty(k2))
            oke, erre = _ok_edge(F, b, first[0], first[4])
            if oke is None:
                why.append('result of the own removal is not branched on')
            else:
                if not cfg.edge_dominates(oke[0], oke[1], second[0]):
                    why.append('mirror removal is not confined to the Ok path of the own removal')
                # every Ok return passes the mirror removal
                for bi, bb in enumerate(b['blocks']):
                    if bb['cleanup'] or bi not in cfg.reach:
                        continue
                    for s in bb['stmts']:
                        if s['k'] == 'assign' and s['dst']['l'] == 0 and s['rv']['k'] == 'aggr' and s['rv']['ak'].endswith('Result::Ok'):
                            if not cfg.dominates(second[0], bi):
                                why.append('an Ok return (bb%d) is not preceded by the mirror removal' % bi)
        # error paths constructed here have no effect before them
        for ebi, v in _err_variants(F, b):
            for e in evs:
                if cfg.path_exists(e[0], ebi) and e is not first:
                    why.append('Err(%s) constructed after an effect' % v)
                if e is first and cfg.path_exists(e[0], ebi):
                    oke, erre = _ok_edge(F, b, first[0], first[4])
                    if oke and cfg.edge_dominates(oke[0], oke[1], ebi):
                        why.append('Err(%s) constructed after a successful own removal' % v)
        out.append(Obl('P2', b['q'], b['span'], 'disconnect = {(self,OUT,remove key other),(peer,IN,remove key self)} on Ok paths; no effect on Err paths', not why, '; '.join(why) if why else 'peer=' + pretty(second[2])))
    return out


def p2_disconnect_undirected(ctx, flavours):
    """on Ok paths one half is removed at self and the complementary half at the peer"""
    F = ctx.F
    out = []
    for fl in flavours:
        b = _node_fn(F, fl, 'disconnect')
        if b is None:
            out.append(_missing('P2u', fl, 'disconnect'))
            continue
        M = model(ctx, fl)
        cfg, pv = F.cfg(b), F.prov(b)
        evs = [e for e in node_events(F, M, b) if M.muts(e[1])]
        why = []
        KEY1 = key_of(P1_)
        selfs = [e for e in evs if e[2] == P1_]
        peers = [e for e in evs if e[2] != P1_]
        if not selfs:
            why.append('no removal at self')
        if not peers:
            why.append('no partner half-edge is removed at the peer: effects are %s' % [(pretty(e[2]), e[1].split('::')[-1]) for e in evs])
        # pairing: each self removal of a single list f is followed, on its Ok edge, by a peer removal of the other list keyed key(self)
        for e in selfs:
            bi, mq, own, args, t, mode = e
            mu = M.muts(mq)
            if len(mu) != 1:
                why.append('%s at self touches both lists %s: the half removed is not known, so its partner cannot be' % (mq.split('::')[-1], sorted(M.role(f) for f, _ in mu)))
                continue
            f, op = next(iter(mu))
            if op not in REMOVAL_OPS:
                why.append('self effect %s' % op)
                continue
            oke, erre = _ok_edge(F, b, bi, t)
            if oke is None:
                why.append('result of %s at self is not branched on' % mq.split('::')[-1])
                continue
            partners = [p for p in peers if cfg.edge_dominates(oke[0], oke[1], p[0]) and not any(
                cfg.edge_dominates(*(_ok_edge(F, b, s2[0], s2[4])[0] or (0, 0)), p[0]) for s2 in selfs if s2 is not e and cfg.path_exists(bi, s2[0]))]
            partners = [p for p in partners if True]
            good = [p for p in partners if len(M.muts(p[1])) == 1 and next(iter(M.muts(p[1])))[0] != f and next(iter(M.muts(p[1])))[1] in REMOVAL_OPS and strip_payload(p[3][0]) == KEY1]
            if len(good) != 1:
                why.append('own %s removal has %d complementary peer removals keyed key(self) on its Ok path' % (M.role(f), len(good)))
            k = deep_unwrap(args[0]) if args else None
            if peers and k not in (P2_, deep_unwrap(key_of(peers[0][2]))):
                why.append('own removal keyed by %s' % pretty(k))
        for p in peers:
            lk = [c for c in term_calls(p[2]) if c[1] in F.bodies and c[2] and strip_payload(c[2][0]) == P1_]
            if not any(footprint(F, M, F.bodies[c[1]]) == {M.OUT, M.IN} for c in lk):
                why.append('peer %s is not the result of looking the key up among self\'s half-edges' % pretty(p[2]))
        out.append(Obl('P2u', b['q'], b['span'], 'disconnect removes one half at self and the complementary half at the peer', not why, '; '.join(why) if why else '%d self / %d peer removals paired' % (len(selfs), len(peers))))
    return out


def _iter_item(term):
    """if term = ITEM.idx with ITEM = payload of next() on a node iterator built from P1: (ctor name, idx)"""
    t = term
    if not (isinstance(t, tuple) and t[0] == 'f'):
        return None
    idx = t[2]
    item = t[1]
    if not (isinstance(item, tuple) and item[0] == 'f' and item[2] == '0' and isinstance(item[1], tuple) and item[1][0] == 'v'):
        return None
    nx = item[1][1]
    if not (isinstance(nx, tuple) and nx[0] == 'call' and nx[1].endswith('as std::iter::Iterator>::next')):
        return None
    for c in term_calls(nx):
        m = re.search(r'::node::Node::(iter_out|iter_in|iter)$', c[1])
        if m and c[2] and strip_payload(c[2][0]) == P1_:
            return m.group(1), idx, nx[3]
        m = re.search(r'^<&\w+::node::Node as std::iter::IntoIterator>::into_iter$', c[1])
        if m and c[2] and strip_payload(c[2][0]) == P1_:
            return 'into_iter', idx, nx[3]
    return None


def _iter_footprint(ctx, fl, ctor):
    F = ctx.F
    M = model(ctx, fl)
    if ctor == 'into_iter':
        b = F.bodies.get('<&%s::node::Node as std::iter::IntoIterator>::into_iter' % fl)
    else:
        b = _node_fn(F, fl, ctor)
    if b is None:
        return None
    rt = F.types[b['locals'][0]]
    nq = '<%s as std::iter::Iterator>::next' % rt.get('p', '')
    nb = F.bodies.get(nq)
    return footprint(F, M, nb) if nb else None


def p3_isolate(ctx, flavours):
    F = ctx.F
    out = []
    for fl in flavours:
        b = _node_fn(F, fl, 'isolate')
        if b is None:
            out.append(_missing('P3', fl, 'isolate'))
            continue
        M = model(ctx, fl)
        cfg, pv = F.cfg(b), F.prov(b)
        evs = [e for e in node_events(F, M, b) if M.muts(e[1])]
        why = []
        KEY1 = key_of(P1_)
        loops = cfg.loops()
        clears = [e for e in evs if {op for _, op in M.muts(e[1])} == {'clear'}]
        rems = [e for e in evs if {op for _, op in M.muts(e[1])} <= REMOVAL_OPS and M.muts(e[1])]
        others = [e for e in evs if e not in clears and e not in rems]
        if others:
            why.append('unexpected effects: ' + ', '.join(e[1].split('::')[-1] for e in others))
        cl_sig = sorted((pretty(e[2]), M.role(next(iter(M.muts(e[1])))[0])) for e in clears)
        if cl_sig != [('P1', 'IN'), ('P1', 'OUT')]:
            why.append('final clears are %s, expected self.OUT and self.IN' % cl_sig)
        for e in clears:
            if not _must_pass(cfg, e[0]):
                why.append('a clear is not on every path')
            if any(e[0] in body for body in loops.values()):
                why.append('a clear sits inside a loop')
        directed = fl in DIRECTED
        seen_lists = set()
        for e in rems:
            bi, mq, own, args, t, mode = e
            it = _iter_item(own)
            if it is None:
                why.append('removal at %s: owner is not the far endpoint of an edge iterated from self' % pretty(own))
                continue
            ctor, idx, nbi = it
            fp = _iter_footprint(ctx, fl, ctor)
            f, op = next(iter(M.muts(mq)))
            if strip_payload(args[0]) != KEY1:
                why.append('removal at the neighbour keyed by %s, not key(self)' % pretty(args[0]))
            if not any(bi in body and nbi in body for body in loops.values()):
                why.append('removal is not inside the loop over the iterator')
            if directed:
                # loop over OUT: neighbour = ITEM.1, remove its IN entry; loop over IN: neighbour = ITEM.0, remove its OUT entry
                if fp == {M.OUT}:
                    exp = ('1', 'IN')
                elif fp == {M.IN}:
                    exp = ('0', 'OUT')
                else:
                    exp = None
                    why.append('iterator %s reads lists %s' % (ctor, fp))
                if exp and (idx, M.role(f)) != exp:
                    why.append('loop over %s removes %s at ITEM.%s, expected %s at ITEM.%s' % (ctor, M.role(f), idx, exp[1], exp[0]))
                if fp and len(fp) == 1:
                    seen_lists |= fp
                    # P3-stable: no effect inside this loop touches the list being iterated
                    if f in fp:
                        why.append('removal inside the loop touches the list being iterated (iterator instability)')
            else:
                if fp != {M.OUT, M.IN}:
                    why.append('undirected isolate must walk both half-edge lists (iterator reads %s)' % fp)
                if idx != '1':
                    why.append('neighbour is ITEM.%s, expected ITEM.1' % idx)
        if directed:
            if seen_lists != {M.OUT, M.IN}:
                why.append('mirror entries are removed only for lists %s' % sorted(M.role(x) for x in seen_lists))
            if len(rems) != 2:
                why.append('%d neighbour removals, expected 2 (one per list)' % len(rems))
        else:
            # remove IN half at neighbour, else (on Err) the OUT half: exactly one per yielded edge
            if len(rems) != 2:
                why.append('%d neighbour removals, expected the inbound-else-outbound pair' % len(rems))
            else:
                a, c = sorted(rems, key=lambda e: e[0])
                oke, erre = _ok_edge(F, b, a[0], a[4])
                if erre is None or not cfg.edge_dominates(erre[0], erre[1], c[0]):
                    why.append('second removal is not confined to the Err path of the first (two halves could be removed for one edge)')
                fa = next(iter(M.muts(a[1])))[0]
                fc = next(iter(M.muts(c[1])))[0]
                if {fa, fc} != {M.OUT, M.IN}:
                    why.append('the two alternative removals touch the same list')
                elif M.role(fa) != 'IN':
                    # the neighbour can be self (self-loop).  The live iterator walks OUT then IN by one index (GET-ADJ); removing the
                    # IN half first never moves an entry at or before the cursor, removing the OUT half first shifts the entries
                    # the cursor is about to read and the next neighbour is skipped
                    why.append('the first removal at the neighbour takes the OUT half: when the neighbour is self (self-loop) this shifts the list under the live iterator and a neighbour is skipped')
        # clears come after the loops
        for e in clears:
            for r in rems:
                if not cfg.path_exists(r[0], e[0]) or cfg.path_exists(e[0], r[0]):
                    why.append('a clear can run before a neighbour removal')
                    break
        # exactly one mirror removal per yielded edge: from the Some edge of the loop's next() no way back to next() around the
        # removal(s) of that loop (a `continue` for some neighbours), and no inner cycle through a removal (`while remove().is_ok()`)
        from .core import outcome_edges as _oe3
        by_loop = {}
        for e in rems:
            it = _iter_item(e[2])
            if it is not None:
                by_loop.setdefault(it[2], []).append(e[0])
        for nbi, rblocks in sorted(by_loop.items()):
            se_, ne_ = _oe3(F, b, nbi)
            if se_ is None:
                why.append('the iterator step at bb%d is not branched on' % nbi)
                continue
            if se_[1] not in rblocks and cfg.path_exists(se_[1], nbi, avoiding=set(rblocks)):
                why.append('some yielded edges skip the removal at the neighbour (a path from next() back to next() avoids it)')
            for rb in rblocks:
                tgt = b['blocks'][rb]['term'].get('target', -1)
                if tgt is not None and tgt >= 0 and cfg.path_exists(tgt, rb, avoiding={nbi}):
                    why.append('a neighbour removal can run more than once for one yielded edge')
        # ... and nothing else that changes edges: no node-level mutator (connect / disconnect / try_connect / isolate) is called
        reach_m, via_ = mutator_reach(ctx, fl)
        for cbi, ct in calls_in(b, lambda t_: t_.get('local') and t_.get('res') in F.bodies and t_.get('res') not in M.methods):
            if ct['res'] in reach_m and ct['res'] != b['q']:
                why.append('calls %s, which changes edges on its own (on top of the mirror removals)' % ct['res'].split('::')[-1])
        out.append(Obl('P3', b['q'], b['span'], 'isolate = remove the mirror entry at every neighbour, then clear both own lists', not why, '; '.join(why) if why else '%d neighbour removals, 2 clears' % len(rems)))
    return out


def t1_try_connect(ctx, flavours):
    F = ctx.F
    out = []
    for fl in flavours:
        b = _node_fn(F, fl, 'try_connect')
        if b is None:
            out.append(_missing('T1', fl, 'try_connect'))
            continue
        M = model(ctx, fl)
        cfg, pv = F.cfg(b), F.prov(b)
        why = []
        conn = _node_fn(F, fl, 'connect')
        muts = mutating_calls(F, M, b)
        ccalls = [(bi, t) for bi, t in calls_in(b, lambda t: t.get('local') and conn is not None and t.get('res') == conn['q'])]
        if len(ccalls) != 1:
            why.append('%d calls to connect' % len(ccalls))
        direct = [m for p, m in muts if len(p) == 1]
        if direct:
            why.append('mutates adjacency directly: ' + ', '.join(m.split('::')[-1] for m in direct))
        other_paths = [p for p, m in muts if len(p) > 1 and (conn is None or p[1] != conn['q'])]
        if other_paths:
            why.append('mutates through ' + ', '.join(p[1] for p in other_paths))
        # guard: is_connected-like query on (self, key(other)), footprint per flavour
        guard = None
        for bi, t in calls_in(b, lambda t: t.get('local') and t.get('res') in F.bodies and F.types[F.bodies[t['res']]['locals'][0]]['s'] == 'bool'):
            args = [strip_payload(pv.of_operand(a)) for a in t['args']]
            if len(args) == 2 and args[0] == P1_ and args[1] == key_of(P2_):
                guard = (bi, t)
        if guard is None:
            why.append('no boolean query (self, key(other)) guards the connect')
        else:
            gb = F.bodies[guard[1]['res']]
            fp = footprint(F, M, gb)
            want = {M.OUT} if fl in DIRECTED else {M.OUT, M.IN}
            if fp != want:
                why.append('existence query reads lists %s, expected %s' % (sorted(M.role(x) for x in fp), sorted(M.role(x) for x in want)))
            te, fe = cfg.bool_edges(guard[1]['dst']['l'], guard[1]['target'])
            if te is not None:
                # the branch must be decided by the existence query alone: every value that can reach the switch is a
                # boolean query of the OUT list on (self, key(other)) -- in the undirected flavours also (other, key(self))
                sw = b['blocks'][te[0]]['term']
                dt = strip_payload(pv.of_operand(sw['op']))
                while isinstance(dt, tuple) and dt and dt[0] == 'unop':
                    dt = strip_payload(dt[2])
                alts = list(dt[1]) if isinstance(dt, tuple) and dt and dt[0] == 'join' else [dt]
                for a in alts:
                    a = strip_payload(a)
                    good = False
                    if isinstance(a, tuple) and a and a[0] == 'call' and a[1] in F.bodies and len(a[2]) == 2:
                        aa = [strip_payload(x) for x in a[2]]
                        fwd = aa == [P1_, key_of(P2_)]
                        bwd = aa == [P2_, key_of(P1_)] and fl not in DIRECTED
                        good = (fwd or bwd) and footprint(F, M, F.bodies[a[1]]) == want
                    if not good:
                        why.append('the connect / EdgeAlreadyExists decision also depends on %s' % pretty(a)[:90])
            if te is None:
                why.append('query result is not branched on')
            elif ccalls:
                if not cfg.edge_dominates(fe[0], fe[1], ccalls[0][0]):
                    why.append('connect is not confined to the "no edge yet" branch')
                errs = _err_variants(F, b)
                if {v for _, v in errs} != {'EdgeAlreadyExists'}:
                    why.append('error variants constructed: %s' % [v for _, v in errs])
                for ebi, v in errs:
                    if not cfg.edge_dominates(te[0], te[1], ebi):
                        why.append('Err(%s) is not confined to the "edge exists" branch' % v)
                args = [strip_payload(pv.of_operand(a)) for a in ccalls[0][1]['args']]
                if args != [P1_, P2_, P3_]:
                    why.append('connect called with %s' % [pretty(a) for a in args])
        out.append(Obl('T1', b['q'], b['span'], 'try_connect = connect(self,other,value) only when the existence query is false; Err(EdgeAlreadyExists) with no effect otherwise', not why, '; '.join(why) if why else 'ok'))
    return out


def t2_disconnect_result(ctx, flavours):
    F = ctx.F
    out = []
    for fl in flavours:
        b = _node_fn(F, fl, 'disconnect')
        if b is None:
            out.append(_missing('T2', fl, 'disconnect'))
            continue
        M = model(ctx, fl)
        pv, cfg = F.prov(b), F.cfg(b)
        why = []
        es = error_set(ctx, b)
        if es != {'EdgeNotFound'}:
            why.append('error set is %s' % sorted(es))
        evs = [e for e in node_events(F, M, b) if M.muts(e[1]) and e[2] == P1_]
        oks = []
        for bi, bb in enumerate(b['blocks']):
            if bb['cleanup'] or bi not in cfg.reach:
                continue
            for s in bb['stmts']:
                if s['k'] == 'assign' and s['dst']['l'] == 0 and s['rv']['k'] == 'aggr' and s['rv']['ak'].endswith('Result::Ok'):
                    oks.append((bi, pv.of_operand(s['rv']['ops'][0])))
        rt = pv.of_local(0)
        self_calls = {e[0] for e in evs}
        if oks:
            for bi, term in oks:
                srcs = [c for c in term_calls(term) if c[3] in self_calls]
                if not srcs:
                    why.append('Ok payload %s is not the value removed from the caller\'s own list' % pretty(term))
        else:
            # tail call: the result *is* the own removal's result
            srcs = [c for c in term_calls(rt) if c[3] in self_calls]
            if not srcs:
                why.append('returned Result does not come from the removal at self')
        out.append(Obl('T2', b['q'], b['span'], 'disconnect returns the removed value / EdgeNotFound only', not why, '; '.join(why) if why else 'ok'))
    return out


def rm1_first_match(ctx, flavours):
    """each single-list removal: forward scan, first key match, one Vec::remove at the matched index, then return Ok(removed.1)"""
    F = ctx.F
    out = []
    for fl in flavours:
        M = model(ctx, fl)
        n = 0
        for q, m in sorted(M.methods.items()):
            rm = [(f, op, bi) for f, op, bi in m['ops'] if op in REMOVAL_OPS]
            if not rm:
                continue
            n += 1
            b = F.bodies[q]
            cfg, pv = F.cfg(b), F.prov(b)
            why = []
            if len(rm) != 1:
                why.append('%d removal sites' % len(rm))
            elif rm[0][1] != 'remove':
                why.append('entry is taken out with Vec::%s, which does not keep the order of the remaining entries / does not remove exactly the matched entry' % rm[0][1])
            else:
                f, op, rbi = rm[0]
                rt = b['blocks'][rbi]['term']
                idx = pv.of_operand(rt['args'][1])
                # idx = next(enumerate(iter(P1.f)))@Some.0.0
                chain = None
                for c in term_calls(idx):
                    if c[1].endswith('as std::iter::Iterator>::next') or c[1] == 'std::iter::Iterator::next':
                        chain = c
                pos = [c for c in term_calls(idx) if c[1].endswith('Iterator>::position') or c[1] == 'std::iter::Iterator::position']
                if chain is None and pos:
                    # accepted idiom (b): idx = list.iter().position(|e| key(upgrade(e.0)) == key)  -- forward first match by definition of position()
                    pc = pos[0]
                    src_names = [c[1] for c in term_calls(pc[2][0])]
                    if not any(x.endswith(']::iter') or x.endswith('Vec::iter') for x in src_names) or any(re.search(r'::(rev|skip|step_by|take|filter|skip_while|enumerate)$', x) for x in src_names):
                        why.append('position() is not applied to a plain forward iteration of the list: ' + pretty(pc[2][0]))
                    if not term_mentions(pc[2][0], lambda z: z == ('f', P1_, f)):
                        why.append('scan runs over a different list than the one removed from')
                    clo = pc[2][1] if len(pc[2]) > 1 else None
                    cb = F.bodies.get(clo[1][len('closure:'):]) if isinstance(clo, tuple) and clo[0] == 'aggr' and clo[1].startswith('closure:') else None
                    if cb is None or [deep_unwrap(x) for x in clo[2]] != [P2_]:
                        why.append('position() predicate is not a closure over the key argument')
                    else:
                        ct = F.prov(cb).of_local(0)
                        okc = False
                        if isinstance(ct, tuple) and ct[0] == 'call' and (ct[1] == 'std::cmp::PartialEq::eq' or ct[1].endswith('PartialEq<&B>>::eq')):
                            a0, a1 = [deep_unwrap(x) for x in ct[2][:2]]
                            for x, y in ((a0, a1), (a1, a0)):
                                up = [c for c in term_calls(x) if c[1].endswith('::WeakNode::upgrade')] if isinstance(x, tuple) else []
                                if y == ('f', P1_, '0') and up and x == key_of(deep_unwrap(up[0])) and deep_unwrap(up[0][2][0]) == ('f', P2_, '0'):
                                    okc = True
                                if y == ('f', P1_, '0') and x == key_of(('f', P2_, '0')):
                                    okc = True   # entry stores the handle itself
                        if not okc:
                            why.append('position() predicate is %s, expected key(peer of entry) == key argument' % pretty(ct))
                    if unwrap_payload(idx) != pc and deep_unwrap(idx) != deep_unwrap(pc):
                        # idx must be the payload of the position() result (through ok_or / ? / match)
                        inner = deep_unwrap(idx)
                        while isinstance(inner, tuple) and inner and inner[0] == 'call' and inner[1].split('::')[-1] in ('branch', 'ok_or', 'ok_or_else', 'unwrap', 'expect', 'ok') and inner[2]:
                            inner = deep_unwrap(inner[2][0])
                        if inner != deep_unwrap(pc):
                            why.append('removal index %s is not the position found' % pretty(idx))
                elif chain is None:
                    why.append('removal index %s does not come from the scan' % pretty(idx))
                else:
                    names = [c[1] for c in term_calls(chain[2][0])] if chain[2] else []
                    pretty_chain = pretty(chain[2][0]) if chain[2] else ''
                    if not (any(x.endswith('Iterator::enumerate') for x in names) and any(x.endswith(']::iter') or x.endswith('Vec::iter') for x in names)):
                        why.append('scan is %s, expected enumerate(iter(list))' % pretty_chain)
                    if any(re.search(r'::(rev|skip|step_by|take|filter|skip_while|rposition|rfind)$', x) for x in names):
                        why.append('scan is not a plain forward scan: %s' % pretty_chain)
                    if not term_mentions(chain[2][0], lambda z: z == ('f', P1_, f)):
                        why.append('scan runs over a different list than the one removed from')
                    item = proj_field(('v', chain, 'Some#1'), '0')
                    if unwrap_payload(idx) != ('f', item, '0') and idx != ('f', item, '0'):
                        why.append('removal index is %s, not the index of the matched entry' % pretty(idx))
                    # eq(key(upgrade(entry.0)), P2) true edge dominates the removal
                    okeq = False
                    for ebi, et in calls_in(b, lambda t: t['callee'] == 'std::cmp::PartialEq::eq'):
                        a0, a1 = [unwrap_payload(pv.of_operand(a)) for a in et['args'][:2]]
                        for x, y in ((a0, a1), (a1, a0)):
                            if y == P2_ and isinstance(x, tuple) and x[0] == 'f':
                                up = [c for c in term_calls(x) if c[1].endswith('::WeakNode::upgrade')]
                                ent0 = ('f', ('f', deep_unwrap(item), '1'), '0')   # enumerate item = (idx, &entry); entry.0 = stored peer
                                if (up and (x == key_of(unwrap_payload(up[0])) or strip_payload(x) == key_of(('v', up[0], 'Some')))) or deep_unwrap(x) == key_of(ent0):
                                    te, fe = cfg.bool_edges(et['dst']['l'], et['target'])
                                    if te and cfg.edge_dominates(te[0], te[1], rbi):
                                        okeq = True
                    if not okeq:
                        why.append('removal is not guarded by key(peer of entry) == key argument')
                    # after the removal: return without re-entering the scan
                    if cfg.path_exists(rt['target'], chain[3]):
                        why.append('scan continues after a removal (more than one entry can be removed)')
            out.append(Obl('RM1', q, b['span'], 'first-match removal on list %s' % (M.role(rm[0][0]) if rm else '?'), not why, '; '.join(why) if why else 'forward scan, one removal, immediate return'))
        if n == 0:
            out.append(Obl('RM1', fl, '-', 'removal primitives present', False, 'no Adjacent method removes'))
    return out


def sym(ctx, flavours):
    """sibling symmetry inside Adjacent: *_inbound and *_outbound do the same thing to their lists"""
    F = ctx.F
    out = []
    for fl in flavours:
        M = model(ctx, fl)
        byop = {}
        for q, m in M.methods.items():
            direct_fields = {f for f, op, bi in m['ops']}
            if len(direct_fields) == 1 and not m['calls']:
                f = next(iter(direct_fields))
                b = F.bodies[q]
                sig = (tuple(sorted(op for _, op, _ in m['ops'])), b['argc'], F.types[b['locals'][0]]['s'], tuple(F.types[b['locals'][i]]['s'] for i in range(2, b['argc'] + 1)))
                byop.setdefault(sig, {}).setdefault(f, []).append(q)
        pairs = 0
        for sig, d in sorted(byop.items()):
            if M.OUT in d and M.IN in d and len(d[M.OUT]) == 1 and len(d[M.IN]) == 1:
                pairs += 1
                a, c = F.bodies[d[M.OUT][0]], F.bodies[d[M.IN][0]]
                from .rules_sib import coarse
                own = lambda kn: bool(re.search(r'::WeakNode::(upgrade|downgrade|WeakNode)$|^W?PTR::(upgrade|downgrade)$|::node::Node::Node$', kn[1]))   # weak/strong storage is C19's business
                sa, sc = sorted(x for x in coarse(F, a) if not own(x)), sorted(x for x in coarse(F, c) if not own(x))
                ok = sa == sc
                out.append(Obl('SYM', a['q'], a['span'], '%s ~ %s' % (a['name'], c['name']), ok, 'same event shape' if ok else 'shapes differ: %s vs %s' % (sorted(set(sa) - set(sc))[:3], sorted(set(sc) - set(sa))[:3])))
            else:
                for f, qs in d.items():
                    for q in qs:
                        if sig[0] and any(op not in READ_OPS for op in sig[0]):
                            out.append(Obl('SYM', q, F.bodies[q]['span'], 'mutating primitive has a sibling on the other list', False, 'no counterpart with the same operations on the other list'))
    return out


def _shape(F, b):
    """multiset of (callee, loop depth) events with the field index abstracted"""
    cfg = F.cfg(b)
    loops = cfg.loops()
    ev = []
    for bi, t in calls_in(b):
        if bi not in cfg.can_return():
            continue
        depth = sum(1 for body in loops.values() if bi in body)
        ev.append((callee_name(t), depth))
    for bi, bb in enumerate(b['blocks']):
        if bb['cleanup'] or bi not in cfg.reach:
            continue
        for s in bb['stmts']:
            if s['k'] == 'assign' and s['rv']['k'] == 'aggr' and s['rv']['ak'].startswith('adt:'):
                ev.append((s['rv']['ak'], 0))
    return sorted(ev)


OBS_DIRECTED = {
    'out_degree': 'OUT', 'is_leaf': 'OUT', 'find_outbound': 'OUT', 'is_connected': 'OUT', 'iter_out': 'OUT',
    'in_degree': 'IN', 'is_root': 'IN', 'find_inbound': 'IN', 'iter_in': 'IN',
    'is_orphan': 'OUT+IN',
}
OBS_UNDIRECTED = {'degree': 'OUT+IN', 'is_orphan': 'OUT+IN', 'find_adjacent': 'OUT+IN', 'is_connected': 'OUT+IN', 'iter': 'OUT+IN'}


def obs(ctx, flavours):
    """observers read the list(s) their public name says (footprint), and none of them mutates"""
    F = ctx.F
    out = []
    for fl in flavours:
        M = model(ctx, fl)
        table = OBS_DIRECTED if fl in DIRECTED else OBS_UNDIRECTED
        for name, want in sorted(table.items()):
            b = _node_fn(F, fl, name)
            if b is None:
                out.append(_missing('OBS', fl, name))
                continue
            rt = F.types[b['locals'][0]]
            if name.startswith('iter'):
                nb = F.bodies.get('<%s as std::iter::Iterator>::next' % rt.get('p', ''))
                fp = footprint(F, M, nb) if nb else set()
            else:
                fp = footprint(F, M, b)
            got = '+'.join(x for x in ('OUT', 'IN') if {'OUT': M.OUT, 'IN': M.IN}[x] in fp)
            ok = got == want and not mutating_calls(F, M, b)
            out.append(Obl('OBS', b['q'], b['span'], '%s reads %s' % (name, want), ok, 'reads %s%s' % (got or 'nothing', '; mutates' if mutating_calls(F, M, b) else '')))
        if fl in UNDIRECTED:
            # degree adds len of each list exactly once
            b = _node_fn(F, fl, 'degree')
            if b is not None:
                lens = []
                for bi, mq, own, args, t, mode in node_events(F, M, b):
                    m = M.methods[mq]
                    lens += [f for f, op, _ in m['ops'] if op == 'len']
                pv = F.prov(b)
                rt = pv.of_local(0)
                add = isinstance(unwrap_payload(rt), tuple) and (rt[0] == 'binop' and rt[1].startswith('Add') or (rt[0] == 'f' and isinstance(rt[1], tuple) and rt[1][0] == 'binop' and rt[1][1].startswith('Add')))
                ok = sorted(lens) == sorted([M.OUT, M.IN]) and add
                out.append(Obl('OBS', b['q'], b['span'], 'degree = len(OUT) + len(IN), each once', ok, 'lens of fields %s; sum=%s' % (sorted(lens), add)))
    return out


def get_adj(ctx, flavours):
    """GET-ADJ / ARITH: get_adjacent(idx) = OUT.get(idx), on None IN.get(idx - len(OUT)); the subtraction only on the None edge"""
    F = ctx.F
    out = []
    for fl in flavours:
        M = model(ctx, fl)
        cands = [q for q, m in M.methods.items() if sorted(op for _, op, _ in m['ops'] if op == 'get') == ['get', 'get'] and {f for f, op, _ in m['ops'] if op == 'get'} == {M.OUT, M.IN}]
        if len(cands) != 1:
            out.append(Obl('GET-ADJ', fl, '-', 'indexed read over both lists', False, '%d candidates' % len(cands)))
            continue
        b = F.bodies[cands[0]]
        pv, cfg = F.prov(b), F.cfg(b)
        m = M.methods[cands[0]]
        why = []
        gets = {f: bi for f, op, bi in m['ops'] if op == 'get'}
        g_out, g_in = b['blocks'][gets[M.OUT]]['term'], b['blocks'][gets[M.IN]]['term']
        if strip_payload(pv.of_operand(g_out['args'][1])) != P2_:
            why.append('OUT list read at %s, not idx' % pretty(pv.of_operand(g_out['args'][1])))
        it = pv.of_operand(g_in['args'][1])
        base = it
        if isinstance(base, tuple) and base[0] == 'f' and isinstance(base[1], tuple) and base[1][0] == 'binop':
            base = base[1]
        okidx = isinstance(base, tuple) and base[0] == 'binop' and base[1].startswith('Sub') and strip_payload(base[2][0]) == P2_ and \
            isinstance(base[2][1], tuple) and base[2][1][0] == 'call' and base[2][1][1].endswith('Vec::len') and strip_payload(base[2][1][2][0]) == ('f', P1_, M.OUT)
        if not okidx:
            why.append('IN list read at %s, expected idx - len(OUT)' % pretty(it))
        # None edge of the OUT read dominates the IN read (and hence the subtraction)
        none_edge = None
        for bi in sorted(cfg.reach):
            tt = b['blocks'][bi]['term']
            if tt['k'] == 'switch':
                term = pv.of_operand(tt['op'])
                if isinstance(term, tuple) and term[0] == 'discr' and isinstance(term[1], tuple) and term[1][0] == 'call' and term[1][3] == gets[M.OUT]:
                    z = [tg for v, tg in tt['targets'] if v == 0]
                    none_edge = (bi, z[0] if z else tt['otherwise'])
        if none_edge is None or not cfg.edge_dominates(none_edge[0], none_edge[1], gets[M.IN]):
            why.append('IN read (and idx - len) is not confined to the None outcome of the OUT read')
        out.append(Obl('GET-ADJ', b['q'], b['span'], 'get(idx) = OUT[idx] else IN[idx - len(OUT)]', not why, '; '.join(why) if why else 'ok'))
    return out


def enc(ctx, flavours):
    """ENC a-d: encapsulation / frame"""
    F = ctx.F
    out = []
    for fl in flavours:
        M = model(ctx, fl)
        tag = '@' + M.path
        # (a) field projections of Adjacent only inside impl Adjacent (and its closures)
        leaks = []
        nplaces = 0
        for q, b in F.bodies.items():
            owner = re.sub(r'(::\{closure#\d+\})+$', '', q)
            inside = owner in M.methods or (b['impl_self_q'] == M.path)
            txt_hit = False
            for bb in b['blocks']:
                if bb['cleanup']:
                    continue
                for s in bb['stmts']:
                    if s['k'] == 'assign':
                        pls = [s['dst']] + ([s['rv']['pl']] if 'pl' in s['rv'] else []) + [o['pl'] for o in s['rv'].get('ops', []) if o.get('k') in ('copy', 'move')]
                        for pl in pls:
                            if any(p.endswith(tag) for p in pl['p']):
                                txt_hit = True
                t = bb['term']
                for o in (t.get('args', []) if t['k'] == 'call' else []):
                    if o.get('k') in ('copy', 'move') and any(p.endswith(tag) for p in o['pl']['p']):
                        txt_hit = True
            if txt_hit:
                nplaces += 1
                if not inside:
                    leaks.append(q)
        out.append(Obl('ENC-a', M.path, M.adt['span'] if M.adt else '-', 'adjacency lists are touched only by Adjacent\'s own methods (%d bodies touch them)' % nplaces, not leaks and nplaces > 0,
                       'field access outside impl Adjacent: ' + ', '.join(leaks) if leaks else 'all inside impl Adjacent'))
        # aggregates of Adjacent only in its constructor
        ctor_sites = []
        for q, b in F.bodies.items():
            for bb in b['blocks']:
                for s in bb['stmts']:
                    if s['k'] == 'assign' and s['rv']['k'] == 'aggr' and s['rv']['ak'].startswith('adt:' + M.path + '::'):
                        ctor_sites.append((q, [o for o in s['rv']['ops']], b))
        okc = len(ctor_sites) == 1 and ctor_sites[0][2]['impl_self_q'] == M.path and ctor_sites[0][2]['argc'] == 0
        if okc:
            b = ctor_sites[0][2]
            pv = F.prov(b)
            terms = [pv.of_operand(o) for o in ctor_sites[0][1]]
            okc = all(isinstance(t, tuple) and t[0] == 'call' and t[1].endswith('Vec::new') for t in terms)
        out.append(Obl('ENC-new', M.path, M.adt['span'] if M.adt else '-', 'Adjacent is built only by its constructor, from two empty Vecs', okc, 'sites: ' + ', '.join(x[0] for x in ctor_sites)))
        # (b) Vec operations applied to the lists
        for q, m in sorted(M.methods.items()):
            bad = [(M.role(f), op) for f, op, bi in m['ops'] if op not in READ_OPS and op not in MUT_OK]
            if m['ops']:
                out.append(Obl('ENC-b', q, F.bodies[q]['span'], 'list operations: ' + ','.join(sorted({op for _, op, _ in m['ops']})), not bad, 'order-changing or unknown operations: %s' % bad if bad else 'only get/iter/len/push/remove/clear'))
        # (c) mutators are called only from Node::{connect, disconnect, isolate}
        allowed = {'%s::node::Node::%s' % (fl, n) for n in ('connect', 'disconnect', 'isolate')}
        n_calls = 0
        for q, b in sorted(F.bodies.items()):
            owner = re.sub(r'(::\{closure#\d+\})+$', '', q)
            if owner in M.methods or owner in getattr(F, 'absorbed', ()):
                continue   # (a private helper of an edge operation is judged as part of the operation it was spliced into)
            for bi, t in calls_in(b, lambda t: t.get('local') and t.get('res') in M.methods and M.muts(t['res'])):
                n_calls += 1
                ok = owner in allowed
                out.append(Obl('ENC-c', q, t['sp'], 'caller of mutator %s' % t['res'].split('::')[-1], ok, 'allowed edge operation' if ok else 'adjacency mutated outside connect/disconnect/isolate'))
        if n_calls == 0:
            out.append(Obl('ENC-c', fl, '-', 'mutator call sites', False, 'no call site of any Adjacent mutator found'))
        # (d) Node aggregates / allocation
        node_path = fl + '::node::Node'
        ptr_new = re.compile(r'^std::(rc::Rc|sync::Arc)::(new|new_cyclic|from|pin)$')
        n_aggr = 0
        for q, b in sorted(F.bodies.items()):
            owner = re.sub(r'(::\{closure#\d+\})+$', '', q)
            pv = None
            for bi, bb in enumerate(b['blocks']):
                if bb['cleanup']:
                    continue
                for s in bb['stmts']:
                    if s['k'] == 'assign' and s['rv']['k'] == 'aggr' and s['rv']['ak'] == 'adt:%s::Node' % node_path:
                        n_aggr += 1
                        pv = pv or F.prov(b)
                        src = pv.of_operand(s['rv']['ops'][0])
                        if owner == node_path + '::new':
                            ok = isinstance(src, tuple) and src[0] == 'call' and bool(ptr_new.match(src[1]))
                            why = 'fresh allocation'
                        elif owner == fl + '::node::adjacent::WeakNode::upgrade':
                            ok = True
                            why = 'upgrade of a weak reference to the same allocation'
                        elif owner == '<%s as std::clone::Clone>::clone' % node_path:
                            ok = strip_payload(src) == ('f', P1_, '0')
                            why = 'clone of the same allocation'
                        else:
                            ok = False
                            why = 'Node constructed outside new / upgrade / clone'
                        out.append(Obl('ENC-d', q, s['sp'], 'Node { inner } aggregate', ok, why))
            for bi, t in calls_in(b, lambda t: bool(ptr_new.match(callee_name(t)))):
                # Rc/Arc::new of a node allocation
                ga = t.get('gargs', [])
                if ga and F.ty_has_adt(ga[0], '^' + re.escape(M.path) + '$'):
                    ok = owner == node_path + '::new'
                    out.append(Obl('ENC-d', q, t['sp'], 'node allocation', ok, 'in Node::new' if ok else 'node allocated outside Node::new'))
        if n_aggr == 0:
            out.append(Obl('ENC-d', fl, '-', 'Node aggregates', False, 'no Node aggregate found'))
        # crate-internal callers of Node::new
        for q, b in sorted(F.bodies.items()):
            for bi, t in calls_in(b, lambda t: t.get('local') and t.get('res') == node_path + '::new'):
                ok = 'graph_serde' in q
                out.append(Obl('ENC-d', q, t['sp'], 'crate-internal caller of Node::new', ok, 'deserialiser' if ok else 'unexpected internal node construction'))
    return out


def mutator_reach(ctx, fl):
    """functions of flavour fl from which an Adjacent list mutator is reachable (crate-local calls, closures, crate iterators
    handed to std); returns (set, via) where via[q] is the next function on a path to the mutator"""
    key = ('mutator_reach', fl)
    if key in ctx.cache:
        return ctx.cache[key]
    F = ctx.F
    M = model(ctx, fl)
    direct = {}
    succ = {}
    for q, b in F.bodies.items():
        if F.flavour(b) != fl:
            continue
        cs = set()
        for bi, t in calls_in(b):
            res = t.get('res')
            if t.get('local') and res in M.methods:
                if M.muts(res):
                    direct[q] = res
            elif t.get('local') and res in F.bodies:
                cs.add(res)
            for gi in t.get('gargs', []):
                for ty in F.ty_walk(gi):
                    if ty['k'] == 'adt' and ty.get('local'):
                        nq = '<%s as std::iter::Iterator>::next' % ty['p']
                        if nq in F.bodies:
                            cs.add(nq)
                    if ty['k'] == 'closure' and ty['p'] in F.bodies:
                        cs.add(ty['p'])
        for bb in b['blocks']:
            for s_ in bb['stmts']:
                if s_['k'] == 'assign' and s_['rv']['k'] == 'aggr' and s_['rv']['ak'].startswith('closure:') and s_['rv']['ak'][8:] in F.bodies:
                    cs.add(s_['rv']['ak'][8:])
        succ[q] = cs
    reach_m = set(direct)
    via = dict(direct)
    changed = True
    while changed:
        changed = False
        for q, cs in succ.items():
            if q not in reach_m:
                hit = sorted(c for c in cs if c in reach_m)
                if hit:
                    reach_m.add(q)
                    via[q] = hit[0]
                    changed = True
    ctx.cache[key] = (reach_m, via)
    return reach_m, via


def frame(ctx, flavours, scope, what):
    """FRAME: no function of the given scope (regex over flavour-relative paths) reaches a list mutator: searches, orderings, SCC,
    writers and containers compute on the graph the caller holds; they do not change its edges"""
    F = ctx.F
    out = []
    rx = re.compile(scope)
    for fl in flavours:
        reach_m, via = mutator_reach(ctx, fl)
        n = 0
        for q, b in sorted(F.bodies.items()):
            if F.flavour(b) != fl:
                continue
            rel = q.replace(fl + '::', '', 1) if not q.startswith('<') else q.replace(fl + '::', '')
            if not rx.search(rel):
                continue
            n += 1
            if b['kind'] == 'Closure':
                continue      # judged with its owner (the closure edge is part of the reach relation)
            bad = q in reach_m
            chain = [q]
            while bad and chain[-1] in via and len(chain) < 8 and via[chain[-1]] not in chain:
                chain.append(via[chain[-1]])
            out.append(Obl('FRAME', q, b['span'], '%s does not change any edge' % what, not bad, 'ok' if not bad else 'reaches a list mutator: ' + ' -> '.join(chain)))
        if n == 0:
            out.append(Obl('FRAME', fl, '-', '%s present' % what, False, 'anchor missing: no function matches %s' % scope))
    return out


TRUNCATING = {'take', 'skip', 'step_by', 'take_while', 'skip_while', 'rev', 'nth', 'map_while', 'scan', 'fuse_take', 'dedup', 'dedup_by', 'dedup_by_key', 'truncate', 'split_off', 'drain'}


def loop_src(ctx, flavours, scope, what):
    """LOOP-SRC: the loops of the given functions walk their source completely and in order: no `take` / `skip` / `step_by` /
    `take_while` / `skip_while` / `rev` / `map_while` .. between the collection (or node iterator) and the loop that consumes it.
    (Which items a *search kernel* sees is decided by the kernel rules; this clause is for the plain walks: isolate, the DOT
    writers, the serde writer and reader.)"""
    F = ctx.F
    out = []
    rx = re.compile(scope)
    for fl in flavours:
        n = 0
        for q, b in sorted(F.bodies.items()):
            if F.flavour(b) != fl:
                continue
            owner = re.sub(r'(::\{closure#\d+\})+$', '', q)
            rel = owner.replace(fl + '::', '', 1) if not owner.startswith('<') else owner.replace(fl + '::', '')
            if not rx.search(rel):
                continue
            n += 1
            pv = F.prov(b)
            bad = []
            for bi, t in calls_in(b):
                nm = callee_name(t).split('::')[-1].rstrip('>')
                recv_calls = []
                if nm == 'next' and t['args']:
                    recv_calls = [c[1].split('::')[-1].rstrip('>') for c in term_calls(pv.of_operand(t['args'][0]))]
                elif nm in ('collect', 'for_each', 'extend', 'sum', 'count', 'fold', 'try_for_each') and t['args']:
                    recv_calls = [c[1].split('::')[-1].rstrip('>') for a_ in t['args'] for c in term_calls(pv.of_operand(a_))]
                hit = sorted(set(recv_calls) & TRUNCATING)
                if hit:
                    bad.append('%s at %s' % ('/'.join(hit), t['sp']))
            out.append(Obl('LOOP-SRC', q, b['span'], '%s walks its source completely and in order' % what, not bad,
                           'ok' if not bad else 'the iterated source is cut or reordered: ' + ', '.join(sorted(set(bad)))))
        if n == 0:
            out.append(Obl('LOOP-SRC', fl, '-', '%s present' % what, False, 'anchor missing: no function matches %s' % scope))
    return out


def orient(ctx, flavours):
    """ORIENT: an iterator reading the OUT list (or both) yields Edge(self, peer, v); one reading the IN list yields Edge(peer, self, v) (directed)"""
    from . import rules_guard as rg
    F = ctx.F
    out = []
    rg.it2(ctx, flavours)
    table = ctx.cache.get('it2_orient', {})
    for fl in flavours:
        M = model(ctx, fl)
        for q, (orientn, getter) in sorted(table.items()):
            b = F.bodies[q]
            if F.flavour(b) != fl:
                continue
            fp = M.reads(getter) if getter in M.methods else set()
            if fl in DIRECTED:
                want = 'near-first' if fp == {M.OUT} else ('peer-first' if fp == {M.IN} else None)
            else:
                want = 'near-first' if fp == {M.OUT, M.IN} else None
            ok = want is not None and orientn == want
            out.append(Obl('ORIENT', q, b['span'], 'iterator over %s yields %s' % ('+'.join(M.role(f) for f in sorted(fp)) or 'nothing', want or '?'), ok,
                           'yields %s' % orientn))
    if not out:
        out.append(Obl('ORIENT', ','.join(flavours), '-', 'node iterators', False, 'none found'))
    return out


def enc_append(ctx, flavours):
    """connect inserts at the end: the Adjacent mutators that connect calls apply only Vec::push to the lists"""
    F = ctx.F
    out = []
    for fl in flavours:
        M = model(ctx, fl)
        b = _node_fn(F, fl, 'connect')
        if b is None:
            out.append(_missing('ENC-push', fl, 'connect'))
            continue
        evs = [e for e in node_events(F, M, b) if M.muts(e[1])]
        if not evs:
            out.append(Obl('ENC-push', b['q'], b['span'], 'connect inserts entries', False, 'connect calls no list mutator'))
        for bi, mq, own, args, t, mode in evs:
            ops = sorted({op for f, op in M.muts(mq)})
            out.append(Obl('ENC-push', mq, F.bodies[mq]['span'], 'insertion primitive used by connect appends (Vec::push only)', ops == ['push'], 'list operations: ' + ','.join(ops)))
    return out


def adj_prim(ctx, flavours):
    """ADJ-PRIM: the read primitives of Adjacent are exactly: get_X(i) = list.get(i) as (&e.0,&e.1); len_X = list.len();
    find_X(k) = the first entry whose peer key equals k, as (&e.0,&e.1)"""
    F = ctx.F
    out = []
    for fl in flavours:
        M = model(ctx, fl)
        seen = {'get': 0, 'len': 0, 'find': 0}
        for q, m in sorted(M.methods.items()):
            b = F.bodies[q]
            ops = m['ops']
            if M.muts(q) or not ops or b['argc'] < 1:
                continue
            fields = {f for f, op, bi in ops}
            opn = sorted(op for f, op, bi in ops)
            pv, cfg = F.prov(b), F.cfg(b)
            rt = deep_unwrap(pv.of_local(0))
            if len(fields) != 1:
                continue   # composite views (get_adjacent, sizeof) have their own rules
            f = next(iter(fields))
            FIELD = ('f', P1_, f)
            if opn == ['get'] and b['argc'] == 2:
                seen['get'] += 1
                why = []
                gbi = [bi for _, op, bi in ops if op == 'get'][0]
                gt = b['blocks'][gbi]['term']
                if deep_unwrap(pv.of_operand(gt['args'][1])) != P2_:
                    why.append('reads index %s, not the index argument' % pretty(pv.of_operand(gt['args'][1])))
                # result: map(get(..), |e| (&e.0, &e.1)) or match
                clos = [z for c in term_calls(rt) for z in c[2] if isinstance(z, tuple) and z and z[0] == 'aggr' and z[1].startswith('closure:')]
                if len(clos) == 1:
                    cb = F.bodies.get(clos[0][1][len('closure:'):])
                    ct = deep_unwrap(F.prov(cb).of_local(0)) if cb else None
                    if ct != ('aggr', 'tuple', (('f', P2_, '0'), ('f', P2_, '1'))):
                        why.append('entry is presented as %s, expected (&e.0, &e.1)' % pretty(ct))
                elif not (isinstance(rt, tuple) and rt[0] == 'call' and rt[1].endswith(']::get')):
                    ent = None
                    for x in (rt[1] if isinstance(rt, tuple) and rt[0] == 'join' else [rt]):
                        if isinstance(x, tuple) and x[0] == 'aggr' and x[1].endswith('Option::Some'):
                            ent = deep_unwrap(x[2][0])
                    g = ('call', callee_name(gt), tuple(pv.of_operand(a) for a in gt['args']), gbi)
                    exp = ('aggr', 'tuple', (('f', deep_unwrap(g), '0'), ('f', deep_unwrap(g), '1')))
                    if ent != exp:
                        why.append('entry is presented as %s' % pretty(ent))
                out.append(Obl('ADJ-PRIM', q, b['span'], 'indexed read of list %s returns the entry at the given index' % M.role(f), not why, '; '.join(why) if why else 'ok'))
            elif opn == ['len'] and b['argc'] == 1:
                seen['len'] += 1
                ok = isinstance(rt, tuple) and rt[0] == 'call' and rt[1].endswith('Vec::len') and deep_unwrap(rt[2][0]) == FIELD
                out.append(Obl('ADJ-PRIM', q, b['span'], 'length of list %s' % M.role(f), ok, 'returns ' + pretty(rt)))
            elif opn == ['iter'] and b['argc'] == 2 and F.types[b['locals'][0]]['s'].startswith('std::option::Option'):
                seen['find'] += 1
                why = []
                nx = [(bi, t) for bi, t in calls_in(b) if t['callee'] == 'std::iter::Iterator::next']
                pos = [(bi, t) for bi, t in calls_in(b) if callee_name(t).split('::')[-1] in ('find', 'position', 'find_map')]
                if len(nx) == 1:
                    nbi, nt = nx[0]
                    src = pv.of_operand(nt['args'][0])
                    if any(c[1].startswith('std::iter::Iterator::') and c[1].split('::')[-1] in ('rev', 'skip', 'step_by', 'take') for c in term_calls(src)):
                        why.append('scan is not a plain forward scan: ' + pretty(src))
                    ENT = deep_unwrap(proj_field(('v', ('call', callee_name(nt), tuple(pv.of_operand(a) for a in nt['args']), nbi), 'Some#1'), '0'))
                    okeq = False
                    for ebi, et in calls_in(b, lambda t: t['callee'] == 'std::cmp::PartialEq::eq'):
                        a0, a1 = [deep_unwrap(pv.of_operand(a)) for a in et['args'][:2]]
                        for x, y in ((a0, a1), (a1, a0)):
                            if y == P2_:
                                up = [c for c in term_calls(x) if c[1].endswith('::WeakNode::upgrade')] if isinstance(x, tuple) else []
                                if (up and x == key_of(up[0]) and deep_unwrap(up[0][2][0]) == ('f', ENT, '0')) or x == key_of(('f', ENT, '0')):
                                    te, fe = cfg.bool_edges(et['dst']['l'], et['target'])
                                    somes = [bi for bi, bb in enumerate(b['blocks']) if not bb['cleanup'] for s in bb['stmts'] if s['k'] == 'assign' and s['dst']['l'] == 0 and s['rv']['k'] == 'aggr' and s['rv']['ak'].endswith('Option::Some')]
                                    if te and somes and all(cfg.edge_dominates(te[0], te[1], sb) for sb in somes):
                                        okeq = True
                    if not okeq:
                        why.append('Some(..) is not confined to key(peer of entry) == key argument')
                    ent = None
                    for x in (rt[1] if isinstance(rt, tuple) and rt[0] == 'join' else [rt]):
                        if isinstance(x, tuple) and x[0] == 'aggr' and x[1].endswith('Option::Some'):
                            ent = deep_unwrap(x[2][0])
                    if ent != ('aggr', 'tuple', (('f', ENT, '0'), ('f', ENT, '1'))):
                        why.append('returns %s, expected the matching entry (&e.0, &e.1)' % pretty(ent))
                elif not pos:
                    why.append('no scan of the list')
                out.append(Obl('ADJ-PRIM', q, b['span'], 'lookup in list %s returns the first entry whose peer key matches' % M.role(f), not why, '; '.join(why) if why else 'ok'))
        for k, n in seen.items():
            need = 2 if k != 'get' or fl in DIRECTED else 0
            if n < need:
                out.append(Obl('ADJ-PRIM', M.path, '-', '%s primitives for both lists' % k, False, 'found %d' % n))
    return out


# ---------------------------------------------------------------------------------------------------------------------
# OBS-Q: the boolean observers are *exactly* what their name says, decided by evaluating their (tiny) bodies over the atoms
# EMPTY(list) and FOUND(list, key):  is_root == EMPTY(IN), is_leaf == EMPTY(OUT), is_orphan == EMPTY(IN) & EMPTY(OUT),
# is_connected(k) == FOUND(OUT, k) (directed) / FOUND(OUT+IN, k) (undirected).  Any other ingredient (another comparison, a
# special case) makes the body unevaluable and the obligation fails closed.
class _Unknown(Exception):
    pass


def _obs_eval(ctx, q, assign, depth=0):
    """truth value of crate bool fn q(self[, key]) under `assign`: {('EMPTY', roles): bool, ('FOUND', roles): bool}"""
    F = ctx.F
    b = F.bodies.get(q)
    if b is None or depth > 4 or F.types[b['locals'][0]].get('s') != 'bool':
        raise _Unknown('cannot evaluate ' + q)
    M = model(ctx, F.flavour(b))
    pv, cfg = F.prov(b), F.cfg(b)

    def roles_of(callq):
        fp = M.reads(callq) if callq in M.methods else footprint(F, M, F.bodies[callq])
        return frozenset(M.role(f) for f in fp)

    def is_len(callq, d=0):
        """crate fn that returns the length of one adjacency list of its receiver (len_outbound, out_degree, ..)"""
        if callq in M.methods:
            ops = {op for _, op, _ in M.methods[callq]['ops']}
            return ops == {'len'}
        cb = F.bodies.get(callq)
        if cb is None or d > 2 or F.types[cb['locals'][0]].get('s') != 'usize':
            return False
        rt_ = deep_unwrap(F.prov(cb).of_local(0))
        return isinstance(rt_, tuple) and bool(rt_) and rt_[0] == 'call' and rt_[1] in F.bodies and is_len(rt_[1], d + 1)

    def atom(kind, callq):
        key = (kind, roles_of(callq))
        if key not in assign:
            raise _Unknown('atom %s%s not in the table' % (kind, sorted(key[1])))
        return assign[key]

    def assign_get(key):
        if key not in assign:
            raise _Unknown('atom %s%s not in the table' % (key[0], sorted(key[1])))
        return assign[key]

    def num(t, _d=0):
        """a number that is a sum of adjacency-list lengths of self: list of role sets, or None"""
        t = deep_unwrap(t)
        if isinstance(t, tuple) and t:
            if t[0] == 'f' and t[2] == '0' and isinstance(t[1], tuple) and t[1] and t[1][0] == 'binop':
                t = t[1]
            if t[0] == 'binop' and t[1].startswith('Add'):
                a_, c_ = num(t[2][0], _d), num(t[2][1], _d)
                return None if a_ is None or c_ is None else a_ + c_
            if t[0] == 'call' and t[1] in F.bodies and is_len(t[1]) and term_mentions(t, lambda z: z == P1_):
                return [roles_of(t[1])]
            if t[0] == 'call' and t[1] in F.bodies and F.types[F.bodies[t[1]]['locals'][0]].get('s') == 'usize' and [strip_payload(x) for x in t[2]] == [P1_] and _d < 3:
                # a degree function defined as a sum of lengths (the callee's self is our self)
                return num(F.prov(F.bodies[t[1]]).of_local(0), _d + 1)
        return None

    def ev(t):
        t = strip_payload(t)
        if t in (('const', 'true'), ('const', 'const true')):
            return True
        if t in (('const', 'false'), ('const', 'const false')):
            return False
        if isinstance(t, tuple) and t:
            if t[0] == 'unop' and t[1] == 'Not':
                return not ev(t[2])
            if t[0] == 'binop' and t[1] in ('Eq', 'Ne'):
                a, c = strip_payload(t[2][0]), strip_payload(t[2][1])
                if a in (('const', '0_usize'), ('const', '0')):
                    a, c = c, a
                if c in (('const', '0_usize'), ('const', '0')):
                    ns = num(a)
                    if ns is not None:
                        v = all(assign_get(('EMPTY', r)) for r in ns)
                        return v if t[1] == 'Eq' else not v
            if t[0] == 'call':
                last = t[1].split('::')[-1]
                if last in ('is_some', 'is_none') and t[1].startswith('std::option::Option::') and t[2]:
                    src = strip_payload(t[2][0])
                    if isinstance(src, tuple) and src and src[0] == 'call' and src[1] in F.bodies and src[1].split('::')[-1].startswith('find') and \
                            [strip_payload(x) for x in src[2]] == [P1_, P2_]:
                        v = atom('FOUND', src[1])
                        return v if last == 'is_some' else not v
                if t[1] in F.bodies and F.types[F.bodies[t[1]]['locals'][0]].get('s') == 'bool' and [strip_payload(x) for x in t[2]] in ([P1_], [P1_, P2_]):
                    return _obs_eval(ctx, t[1], assign, depth + 1)
        raise _Unknown('uses %s' % pretty(t)[:70])
    # walk the CFG
    bi, ret, steps = 0, None, 0
    while steps < 200:
        steps += 1
        bb = b['blocks'][bi]
        for s_ in bb['stmts']:
            if s_['k'] == 'assign' and s_['dst'] == {'l': 0, 'p': []}:
                rv = s_['rv']
                if rv['k'] == 'use':
                    ret = ev(pv.of_operand(rv['ops'][0]))
                elif rv['k'] in ('binop', 'unop'):
                    ret = ev((rv['k'], rv['op'], tuple(pv.of_operand(o) for o in rv['ops'])) if rv['k'] == 'binop' else ('unop', rv['op'], pv.of_operand(rv['ops'][0])))
                else:
                    raise _Unknown('result computed by ' + rv['k'])
        t = bb['term']
        if t['k'] == 'return':
            if ret is None:
                raise _Unknown('no result')
            return ret
        if t['k'] == 'call':
            if t['dst'] == {'l': 0, 'p': []}:
                ret = ev(pv.of_call(t, bi, 0))
            bi = t['target']
        elif t['k'] in ('goto', 'drop', 'assert'):
            bi = t['target']
        elif t['k'] == 'switch':
            opt = strip_payload(pv.of_operand(t['op']))
            if isinstance(opt, tuple) and opt and opt[0] == 'discr':
                # match / matches! / if let on the Option returned by a finder
                src = strip_payload(opt[1])
                if isinstance(src, tuple) and src and src[0] == 'call' and src[1] in F.bodies and src[1].split('::')[-1].startswith('find') and \
                        [strip_payload(x) for x in src[2]] == [P1_, P2_]:
                    v = atom('FOUND', src[1])
                else:
                    raise _Unknown('branches on %s' % pretty(opt)[:60])
            else:
                v = ev(opt)
            tg = [x for val, x in t['targets'] if val == (1 if v else 0)]
            bi = tg[0] if tg else t['otherwise']
        else:
            raise _Unknown('terminator ' + t['k'])
        if bi < 0:
            raise _Unknown('diverges')
    raise _Unknown('does not terminate')


def obs_q(ctx, flavours):
    import itertools
    F = ctx.F
    out = []
    for fl in flavours:
        directed = fl in DIRECTED
        BOTH = frozenset(('OUT', 'IN'))
        spec = {
            'is_orphan': ('EMPTY(IN) & EMPTY(OUT)', lambda a: a[('EMPTY', frozenset(('IN',)))] and a[('EMPTY', frozenset(('OUT',)))]),
            'is_connected': ('FOUND(OUT, key)' if directed else 'FOUND(OUT+IN, key)', lambda a: a[('FOUND', frozenset(('OUT',)) if directed else BOTH)]),
        }
        if directed:
            spec['is_root'] = ('EMPTY(IN)', lambda a: a[('EMPTY', frozenset(('IN',)))])
            spec['is_leaf'] = ('EMPTY(OUT)', lambda a: a[('EMPTY', frozenset(('OUT',)))])
        atoms = [('EMPTY', frozenset(('IN',))), ('EMPTY', frozenset(('OUT',))), ('FOUND', frozenset(('OUT',))), ('FOUND', frozenset(('IN',))), ('FOUND', BOTH)]
        for name, (text, want) in sorted(spec.items()):
            b = _node_fn(F, fl, name)
            if b is None:
                out.append(_missing('OBS-Q', fl, name))
                continue
            why = None
            try:
                for vals in itertools.product((False, True), repeat=len(atoms)):
                    a = dict(zip(atoms, vals))
                    if _obs_eval(ctx, b['q'], a) != want(a):
                        why = 'differs from %s when %s' % (text, ', '.join('%s%s=%s' % (k[0], sorted(k[1]), v) for k, v in a.items() if k[0] == ('FOUND' if name == 'is_connected' else 'EMPTY') and len(k[1]) == (1 if directed or name != 'is_connected' else 2)))
                        break
            except _Unknown as e:
                why = 'is not a function of the list states alone: %s' % e
            out.append(Obl('OBS-Q', b['q'], b['span'], '%s == %s' % (name, text), why is None, why or 'truth table agrees'))
    return out
