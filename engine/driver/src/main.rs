// gdsl-facts: rustc_private fact extractor.
//
// Used as RUSTC_WORKSPACE_WRAPPER (cargo passes the real rustc as argv[1]) or
// directly in place of rustc for probe files.  It does no judging: for every
// crate named in GDSL_FACTS_CRATES (default "gdsl") it writes one JSON document
// to GDSL_FACTS_OUT describing ADTs, impls, fn signatures, unsafe blocks and
// the MIR (mir-opt-level=0) of every fn / assoc fn / closure with resolved
// callees.  All decisions are taken by /verif/engine/gdslint.
#![feature(rustc_private)]
extern crate rustc_abi;
extern crate rustc_driver;
extern crate rustc_hir;
extern crate rustc_interface;
extern crate rustc_middle;
extern crate rustc_span;

use rustc_driver::Compilation;
use rustc_hir::def::DefKind;
use rustc_hir::def_id::DefId;
use rustc_middle::mir::{
    AggregateKind, Body, Operand, Place, ProjectionElem, Rvalue, StatementKind, TerminatorKind,
};
use rustc_middle::ty::{self, Ty, TyCtxt};
use std::collections::HashMap;
use std::fmt::Write as _;

fn esc(s: &str) -> String {
    let mut o = String::with_capacity(s.len() + 2);
    o.push('"');
    for c in s.chars() {
        match c {
            '"' => o.push_str("\\\""),
            '\\' => o.push_str("\\\\"),
            '\n' => o.push_str("\\n"),
            '\t' => o.push_str("\\t"),
            c if (c as u32) < 0x20 => {
                let _ = write!(o, "\\u{:04x}", c as u32);
            }
            c => o.push(c),
        }
    }
    o.push('"');
    o
}

struct Cx<'tcx> {
    tcx: TyCtxt<'tcx>,
    types: Vec<String>,
    tymap: HashMap<Ty<'tcx>, usize>,
    qcache: HashMap<DefId, String>,
}

impl<'tcx> Cx<'tcx> {
    /// generic-free, impl-aware qualified name of a definition
    fn qname(&mut self, did: DefId) -> String {
        if let Some(q) = self.qcache.get(&did) {
            return q.clone();
        }
        let q = self.qname_uncached(did);
        self.qcache.insert(did, q.clone());
        q
    }

    fn ty_q(&mut self, t: Ty<'tcx>) -> String {
        match t.kind() {
            ty::Adt(adt, _) => self.tcx.def_path_str(adt.did()),
            ty::Ref(_, inner, m) => format!("&{}{}", if m.is_mut() { "mut " } else { "" }, self.ty_q(*inner)),
            ty::Slice(inner) => format!("[{}]", self.ty_q(*inner)),
            ty::Array(inner, _) => format!("[{};N]", self.ty_q(*inner)),
            ty::RawPtr(inner, m) => format!("*{}{}", if m.is_mut() { "mut " } else { "const " }, self.ty_q(*inner)),
            ty::Tuple(ts) => {
                let v: Vec<String> = ts.iter().map(|x| self.ty_q(x)).collect();
                format!("({})", v.join(", "))
            }
            _ => t.to_string(),
        }
    }

    fn qname_uncached(&mut self, did: DefId) -> String {
        let tcx = self.tcx;
        let dk = tcx.def_kind(did);
        if matches!(dk, DefKind::Closure) {
            let parent = tcx.parent(did);
            let pq = self.qname(parent);
            let key = tcx.def_key(did);
            return format!("{}::{{closure#{}}}", pq, key.disambiguated_data.disambiguator);
        }
        if let Some(parent) = tcx.opt_parent(did) {
            if matches!(tcx.def_kind(parent), DefKind::Impl { .. }) {
                let name = tcx.item_name(did).to_string();
                let self_ty = tcx.type_of(parent).instantiate_identity().skip_norm_wip();
                let sq = self.ty_q(self_ty);
                if tcx.impl_is_of_trait(parent) {
                    let tr = tcx.impl_trait_ref(parent).instantiate_identity().skip_norm_wip();
                    let tp = tcx.def_path_str(tr.def_id);
                    let extra: Vec<String> = tr.args.iter().skip(1).filter_map(|a| a.as_type()).filter(|t| *t != self_ty).map(|t| t.to_string()).collect();
                    let ta = if extra.is_empty() { String::new() } else { format!("<{}>", extra.join(", ")) };
                    return format!("<{} as {}{}>::{}", sq, tp, ta, name);
                }
                return format!("{}::{}", sq, name);
            }
            // items nested in fns (e.g. visitor impl inside deserialize) keep def_path_str
        }
        strip_generics(&tcx.def_path_str(did))
    }

    fn ty_id(&mut self, t: Ty<'tcx>) -> usize {
        if let Some(i) = self.tymap.get(&t) {
            return *i;
        }
        // reserve slot first (recursive types cannot occur structurally, but be safe)
        let idx = self.types.len();
        self.types.push(String::new());
        self.tymap.insert(t, idx);
        let s = esc(&t.to_string());
        let js = match t.kind() {
            ty::Adt(adt, args) => {
                let a: Vec<String> = args.iter().filter_map(|a| a.as_type()).map(|x| self.ty_id(x).to_string()).collect();
                format!("{{\"k\":\"adt\",\"p\":{},\"a\":[{}],\"local\":{},\"s\":{}}}", esc(&self.tcx.def_path_str(adt.did())), a.join(","), adt.did().is_local(), s)
            }
            ty::Ref(_, inner, m) => format!("{{\"k\":\"ref\",\"m\":{},\"a\":[{}],\"s\":{}}}", m.is_mut(), self.ty_id(*inner), s),
            ty::RawPtr(inner, m) => format!("{{\"k\":\"ptr\",\"m\":{},\"a\":[{}],\"s\":{}}}", m.is_mut(), self.ty_id(*inner), s),
            ty::Slice(inner) => format!("{{\"k\":\"slice\",\"a\":[{}],\"s\":{}}}", self.ty_id(*inner), s),
            ty::Array(inner, _) => format!("{{\"k\":\"array\",\"a\":[{}],\"s\":{}}}", self.ty_id(*inner), s),
            ty::Tuple(ts) => {
                let a: Vec<String> = ts.iter().map(|x| self.ty_id(x).to_string()).collect();
                format!("{{\"k\":\"tuple\",\"a\":[{}],\"s\":{}}}", a.join(","), s)
            }
            ty::Param(p) => format!("{{\"k\":\"param\",\"n\":{},\"a\":[],\"s\":{}}}", esc(p.name.as_str()), s),
            ty::Dynamic(..) => format!("{{\"k\":\"dyn\",\"a\":[],\"s\":{}}}", s),
            ty::Closure(did, _) => format!("{{\"k\":\"closure\",\"p\":{},\"a\":[],\"s\":{}}}", esc(&self.qname(*did)), s),
            ty::FnDef(did, _) => format!("{{\"k\":\"fndef\",\"p\":{},\"a\":[],\"s\":{}}}", esc(&self.qname(*did)), s),
            ty::FnPtr(..) => format!("{{\"k\":\"fnptr\",\"a\":[],\"s\":{}}}", s),
            ty::Alias(..) => format!("{{\"k\":\"alias\",\"a\":[],\"s\":{}}}", s),
            ty::Bool | ty::Char | ty::Int(_) | ty::Uint(_) | ty::Float(_) | ty::Str | ty::Never => {
                format!("{{\"k\":\"prim\",\"a\":[],\"s\":{}}}", s)
            }
            _ => format!("{{\"k\":\"other\",\"a\":[],\"s\":{}}}", s),
        };
        self.types[idx] = js;
        idx
    }

    fn span_str(&self, sp: rustc_span::Span) -> (String, String) {
        let sm = self.tcx.sess.source_map();
        let exp = if sp.from_expansion() {
            let d = sp.ctxt().outer_expn_data();
            match d.kind {
                rustc_span::ExpnKind::Macro(_, name) => format!("macro:{}", name),
                rustc_span::ExpnKind::Desugaring(k) => format!("desugar:{:?}", k),
                rustc_span::ExpnKind::AstPass(k) => format!("astpass:{:?}", k),
                rustc_span::ExpnKind::Root => "root".to_string(),
            }
        } else {
            String::new()
        };
        let sp2 = sp.source_callsite();
        let lo = sm.lookup_char_pos(sp2.lo());
        (format!("{}:{}", lo.file.name.prefer_local_unconditionally(), lo.line), exp)
    }

    fn place_json(&mut self, body: &Body<'tcx>, p: &Place<'tcx>) -> String {
        let tcx = self.tcx;
        let mut s = format!("{{\"l\":{},\"p\":[", p.local.as_usize());
        let mut first = true;
        let mut pty = rustc_middle::mir::PlaceTy::from_ty(body.local_decls[p.local].ty);
        for e in p.projection.iter() {
            if !first {
                s.push(',');
            }
            first = false;
            match e {
                ProjectionElem::Deref => s.push_str("\"*\""),
                ProjectionElem::Field(f, _) => {
                    let mut name = format!("{}", f.as_usize());
                    if let ty::Adt(adt, _) = pty.ty.kind() {
                        let vidx = pty.variant_index.unwrap_or(rustc_abi::VariantIdx::from_u32(0));
                        if adt.variants().len() > vidx.as_usize() {
                            let v = adt.variant(vidx);
                            if v.fields.len() > f.as_usize() {
                                name = format!("{}:{}@{}", f.as_usize(), v.fields[f].name, tcx.def_path_str(adt.did()));
                            }
                        }
                    }
                    let _ = write!(s, "{}", esc(&format!(".{}", name)));
                }
                ProjectionElem::Downcast(name, idx) => {
                    let _ = write!(s, "{}", esc(&format!("as {}#{}", name.map(|n| n.to_string()).unwrap_or_default(), idx.as_usize())));
                }
                ProjectionElem::Index(l) => {
                    let _ = write!(s, "{}", esc(&format!("[_{}]", l.as_usize())));
                }
                other => {
                    let _ = write!(s, "{}", esc(&format!("{:?}", other)));
                }
            }
            pty = pty.projection_ty(tcx, e);
        }
        s.push_str("]}");
        s
    }

    fn operand_json(&mut self, body: &Body<'tcx>, o: &Operand<'tcx>) -> String {
        match o {
            Operand::Copy(p) => format!("{{\"k\":\"copy\",\"pl\":{}}}", self.place_json(body, p)),
            Operand::Move(p) => format!("{{\"k\":\"move\",\"pl\":{}}}", self.place_json(body, p)),
            Operand::Constant(c) => {
                let t = c.const_.ty();
                let mut fnp = String::new();
                if let ty::FnDef(d, _) = t.kind() {
                    fnp = self.qname(*d);
                }
                format!("{{\"k\":\"const\",\"v\":{},\"ty\":{},\"fn\":{}}}", esc(&format!("{}", c.const_)), esc(&t.to_string()), esc(&fnp))
            }
            #[allow(unreachable_patterns)]
            _ => format!("{{\"k\":\"other\",\"v\":{}}}", esc(&format!("{:?}", o))),
        }
    }

    fn rvalue_json(&mut self, body: &Body<'tcx>, r: &Rvalue<'tcx>) -> String {
        let tcx = self.tcx;
        match r {
            Rvalue::Use(o, ..) => format!("{{\"k\":\"use\",\"ops\":[{}]}}", self.operand_json(body, o)),
            Rvalue::Ref(_, bk, p) => format!("{{\"k\":\"ref\",\"mut\":{},\"pl\":{}}}", matches!(bk, rustc_middle::mir::BorrowKind::Mut { .. }), self.place_json(body, p)),
            Rvalue::RawPtr(_, p) => format!("{{\"k\":\"rawptr\",\"pl\":{}}}", self.place_json(body, p)),
            Rvalue::Discriminant(p) => {
                let pty = p.ty(&body.local_decls, tcx).ty;
                let mut vars = String::new();
                if let ty::Adt(adt, _) = pty.kind() {
                    let names: Vec<String> = adt.variants().iter().map(|v| esc(v.name.as_str())).collect();
                    vars = format!(",\"adt\":{},\"variants\":[{}]", esc(&tcx.def_path_str(adt.did())), names.join(","));
                }
                format!("{{\"k\":\"discr\",\"pl\":{}{}}}", self.place_json(body, p), vars)
            }
            Rvalue::Aggregate(kind, ops) => {
                let ks = match &**kind {
                    AggregateKind::Adt(did, vidx, _, _, _) => {
                        let adt = tcx.adt_def(*did);
                        format!("adt:{}::{}", tcx.def_path_str(*did), adt.variant(*vidx).name)
                    }
                    AggregateKind::Tuple => "tuple".to_string(),
                    AggregateKind::Closure(did, _) => format!("closure:{}", self.qname(*did)),
                    AggregateKind::Array(_) => "array".to_string(),
                    other => format!("{:?}", other),
                };
                let ops: Vec<String> = ops.iter().map(|o| self.operand_json(body, o)).collect();
                format!("{{\"k\":\"aggr\",\"ak\":{},\"ops\":[{}]}}", esc(&ks), ops.join(","))
            }
            Rvalue::Cast(ck, o, _) => format!("{{\"k\":\"cast\",\"ck\":{},\"ops\":[{}]}}", esc(&format!("{:?}", ck)), self.operand_json(body, o)),
            Rvalue::BinaryOp(op, ab) => format!(
                "{{\"k\":\"binop\",\"op\":{},\"ops\":[{},{}]}}",
                esc(&format!("{:?}", op)),
                self.operand_json(body, &ab.0),
                self.operand_json(body, &ab.1)
            ),
            Rvalue::UnaryOp(op, a) => format!("{{\"k\":\"unop\",\"op\":{},\"ops\":[{}]}}", esc(&format!("{:?}", op)), self.operand_json(body, a)),
            Rvalue::CopyForDeref(p) => format!("{{\"k\":\"use\",\"ops\":[{{\"k\":\"copy\",\"pl\":{}}}]}}", self.place_json(body, p)),
            other => format!("{{\"k\":\"other\",\"v\":{}}}", esc(&format!("{:?}", other))),
        }
    }

    fn body_json(&mut self, did: DefId) -> String {
        let tcx = self.tcx;
        let dk = tcx.def_kind(did);
        let path = tcx.def_path_str(did);
        let q = self.qname(did);
        let body = tcx.optimized_mir(did);
        let env = ty::TypingEnv::post_analysis(tcx, did);
        let (sp, _) = self.span_str(body.span);
        // identity
        let mut mods: Vec<String> = Vec::new();
        for d in tcx.def_path(did).data.iter() {
            if let rustc_hir::definitions::DefPathData::TypeNs(n) = d.data {
                mods.push(n.to_string());
            } else {
                break;
            }
        }
        let mut impl_self = String::from("null");
        let mut impl_self_q = String::new();
        let mut impl_trait = String::new();
        let mut auto_derived = false;
        let mut owner = did;
        while matches!(tcx.def_kind(owner), DefKind::Closure) {
            owner = tcx.parent(owner);
        }
        if let Some(parent) = tcx.opt_parent(owner) {
            if matches!(tcx.def_kind(parent), DefKind::Impl { .. }) {
                let st = tcx.type_of(parent).instantiate_identity().skip_norm_wip();
                impl_self = self.ty_id(st).to_string();
                impl_self_q = self.ty_q(st);
                if tcx.impl_is_of_trait(parent) {
                    let tr = tcx.impl_trait_ref(parent).instantiate_identity().skip_norm_wip();
                    impl_trait = tcx.def_path_str(tr.def_id);
                }
                auto_derived = tcx.is_automatically_derived(parent);
            }
        }
        let name = if matches!(dk, DefKind::Closure) { String::from("{closure}") } else { tcx.item_name(did).to_string() };
        let vis = if matches!(dk, DefKind::Fn | DefKind::AssocFn) { format!("{:?}", tcx.visibility(did)) } else { String::new() };
        let mut s = String::new();
        let _ = write!(
            s,
            "{{\"q\":{},\"path\":{},\"kind\":{},\"span\":{},\"argc\":{},\"name\":{},\"mods\":[{}],\"impl_self\":{},\"impl_self_q\":{},\"impl_trait\":{},\"auto_derived\":{},\"vis\":{},\"locals\":[",
            esc(&q),
            esc(&path),
            esc(&format!("{:?}", dk)),
            esc(&sp),
            body.arg_count,
            esc(&name),
            mods.iter().map(|m| esc(m)).collect::<Vec<_>>().join(","),
            impl_self,
            esc(&impl_self_q),
            esc(&impl_trait),
            auto_derived,
            esc(&vis)
        );
        for (i, ld) in body.local_decls.iter().enumerate() {
            if i > 0 {
                s.push(',');
            }
            let _ = write!(s, "{}", self.ty_id(ld.ty));
        }
        s.push_str("],\"dbg\":{");
        let mut firstd = true;
        for vdi in body.var_debug_info.iter() {
            if let rustc_middle::mir::VarDebugInfoContents::Place(p) = &vdi.value {
                if p.projection.is_empty() {
                    if !firstd {
                        s.push(',');
                    }
                    firstd = false;
                    let _ = write!(s, "\"{}\":{}", p.local.as_usize(), esc(vdi.name.as_str()));
                }
            }
        }
        s.push_str("},\"blocks\":[");
        for (bi, (_bb, data)) in body.basic_blocks.iter_enumerated().enumerate() {
            if bi > 0 {
                s.push(',');
            }
            let _ = write!(s, "{{\"cleanup\":{},\"stmts\":[", data.is_cleanup);
            let mut firsts = true;
            for st in data.statements.iter() {
                let js = match &st.kind {
                    StatementKind::Assign(b) => {
                        let (p, r) = &**b;
                        Some(format!("{{\"k\":\"assign\",\"dst\":{},\"rv\":{}", self.place_json(body, p), self.rvalue_json(body, r)))
                    }
                    StatementKind::StorageLive(l) => Some(format!("{{\"k\":\"live\",\"l\":{}", l.as_usize())),
                    StatementKind::StorageDead(l) => Some(format!("{{\"k\":\"dead\",\"l\":{}", l.as_usize())),
                    StatementKind::SetDiscriminant { place, variant_index } => {
                        Some(format!("{{\"k\":\"setdiscr\",\"dst\":{},\"v\":{}", self.place_json(body, place), variant_index.as_usize()))
                    }
                    _ => None,
                };
                if let Some(mut js) = js {
                    let (sp, exp) = self.span_str(st.source_info.span);
                    let _ = write!(js, ",\"sp\":{},\"exp\":{}}}", esc(&sp), esc(&exp));
                    if !firsts {
                        s.push(',');
                    }
                    firsts = false;
                    s.push_str(&js);
                }
            }
            s.push_str("],\"term\":");
            let term = data.terminator();
            let (tsp, texp) = self.span_str(term.source_info.span);
            let tj = match &term.kind {
                TerminatorKind::Call { func, args, destination, target, .. } => {
                    let mut callee = String::new();
                    let mut resolved = String::new();
                    let mut reskind = "indirect";
                    let mut gargs: Vec<String> = Vec::new();
                    let mut is_local = false;
                    let mut self_kind = String::new();
                    if let Operand::Constant(c) = func {
                        if let ty::FnDef(cd, ga) = c.const_.ty().kind() {
                            callee = self.qname(*cd);
                            for a in ga.iter() {
                                if let Some(t) = a.as_type() {
                                    gargs.push(self.ty_id(t).to_string());
                                }
                            }
                            if let Some(t0) = ga.iter().filter_map(|a| a.as_type()).next() {
                                self_kind = match t0.kind() {
                                    ty::Param(_) => "param".into(),
                                    ty::Dynamic(..) => "dyn".into(),
                                    ty::Ref(_, i, _) => match i.kind() {
                                        ty::Param(_) => "param".into(),
                                        ty::Dynamic(..) => "dyn".into(),
                                        _ => "concrete".into(),
                                    },
                                    ty::Alias(..) => "alias".into(),
                                    _ => "concrete".into(),
                                };
                            }
                            match ty::Instance::try_resolve(tcx, env, *cd, ga) {
                                Ok(Some(i)) => {
                                    let rd = i.def_id();
                                    // a resolved *trait item* (virtual / default) on a param stays user code
                                    resolved = self.qname(rd);
                                    is_local = rd.is_local();
                                    reskind = match i.def {
                                        ty::InstanceKind::Item(_) => "item",
                                        ty::InstanceKind::Virtual(..) => "virtual",
                                        ty::InstanceKind::FnPtrShim(..) => "fnptrshim",
                                        ty::InstanceKind::ClosureOnceShim { .. } => "closureonce",
                                        ty::InstanceKind::CloneShim(..) => "cloneshim",
                                        ty::InstanceKind::DropGlue(..) => "dropglue",
                                        _ => "shim",
                                    };
                                }
                                _ => {
                                    reskind = "unresolved";
                                }
                            }
                        }
                    }
                    if callee.is_empty() {
                        callee = "<indirect>".into();
                        resolved = format!("<indirect:{}>", func.ty(&body.local_decls, tcx));
                    }
                    let a: Vec<String> = args.iter().map(|o| self.operand_json(body, &o.node)).collect();
                    format!(
                        "{{\"k\":\"call\",\"callee\":{},\"res\":{},\"rk\":{},\"local\":{},\"selfk\":{},\"gargs\":[{}],\"args\":[{}],\"dst\":{},\"target\":{}",
                        esc(&callee),
                        esc(&resolved),
                        esc(reskind),
                        is_local,
                        esc(&self_kind),
                        gargs.join(","),
                        a.join(","),
                        self.place_json(body, destination),
                        target.map(|t| t.as_usize() as i64).unwrap_or(-1)
                    )
                }
                TerminatorKind::Drop { place, target, .. } => format!("{{\"k\":\"drop\",\"pl\":{},\"target\":{}", self.place_json(body, place), target.as_usize()),
                TerminatorKind::SwitchInt { discr, targets } => {
                    let mut ts: Vec<String> = Vec::new();
                    for (v, t) in targets.iter() {
                        ts.push(format!("[{},{}]", v, t.as_usize()));
                    }
                    format!("{{\"k\":\"switch\",\"op\":{},\"targets\":[{}],\"otherwise\":{}", self.operand_json(body, discr), ts.join(","), targets.otherwise().as_usize())
                }
                TerminatorKind::Goto { target } => format!("{{\"k\":\"goto\",\"target\":{}", target.as_usize()),
                TerminatorKind::Return => "{\"k\":\"return\"".to_string(),
                TerminatorKind::Unreachable => "{\"k\":\"unreachable\"".to_string(),
                TerminatorKind::Assert { target, cond, expected, msg, .. } => format!(
                    "{{\"k\":\"assert\",\"op\":{},\"expected\":{},\"msg\":{},\"target\":{}",
                    self.operand_json(body, cond),
                    expected,
                    esc(&format!("{:?}", msg).chars().take(60).collect::<String>()),
                    target.as_usize()
                ),
                TerminatorKind::UnwindResume => "{\"k\":\"resume\"".to_string(),
                TerminatorKind::FalseEdge { real_target, .. } => format!("{{\"k\":\"goto\",\"target\":{}", real_target.as_usize()),
                TerminatorKind::FalseUnwind { real_target, .. } => format!("{{\"k\":\"goto\",\"target\":{}", real_target.as_usize()),
                other => format!("{{\"k\":\"other\",\"v\":{}", esc(&format!("{:?}", other))),
            };
            let _ = write!(s, "{},\"sp\":{},\"exp\":{}}}}}", tj, esc(&tsp), esc(&texp));
        }
        s.push_str("]}");
        s
    }
}

fn strip_generics(p: &str) -> String {
    // remove every `::<...>` group (balanced)
    let b = p.as_bytes();
    let mut out = String::with_capacity(p.len());
    let mut i = 0;
    while i < b.len() {
        if i + 2 < b.len() && &p[i..i + 3] == "::<" {
            let mut depth = 0i32;
            let mut j = i + 2;
            while j < b.len() {
                if b[j] == b'<' {
                    depth += 1;
                } else if b[j] == b'>' && (j == 0 || b[j - 1] != b'-') {
                    depth -= 1;
                    if depth == 0 {
                        break;
                    }
                }
                j += 1;
            }
            i = j + 1;
        } else {
            out.push(b[i] as char);
            i += 1;
        }
    }
    out
}

struct UnsafeFinder<'a> {
    out: &'a mut Vec<String>,
    owner: String,
    sm: &'a rustc_span::source_map::SourceMap,
}
impl<'a, 'v> rustc_hir::intravisit::Visitor<'v> for UnsafeFinder<'a> {
    fn visit_block(&mut self, b: &'v rustc_hir::Block<'v>) {
        if let rustc_hir::BlockCheckMode::UnsafeBlock(src) = b.rules {
            let lo = self.sm.lookup_char_pos(b.span.source_callsite().lo());
            self.out.push(format!(
                "{{\"fn\":{},\"span\":{},\"user\":{},\"exp\":{}}}",
                esc(&self.owner),
                esc(&format!("{}:{}", lo.file.name.prefer_local_unconditionally(), lo.line)),
                matches!(src, rustc_hir::UnsafeSource::UserProvided),
                b.span.from_expansion()
            ));
        }
        rustc_hir::intravisit::walk_block(self, b);
    }
}

struct Cb;
impl rustc_driver::Callbacks for Cb {
    fn after_analysis<'tcx>(&mut self, _c: &rustc_interface::interface::Compiler, tcx: TyCtxt<'tcx>) -> Compilation {
        let krate = tcx.crate_name(rustc_span::def_id::LOCAL_CRATE);
        let want = std::env::var("GDSL_FACTS_CRATES").unwrap_or_else(|_| "gdsl".into());
        if !want.split(',').any(|w| w == krate.as_str() || w == "*") {
            return Compilation::Continue;
        }
        let out = match std::env::var("GDSL_FACTS_OUT") {
            Ok(o) => o,
            Err(_) => return Compilation::Continue,
        };
        let mut cx = Cx { tcx, types: Vec::new(), tymap: HashMap::new(), qcache: HashMap::new() };

        // ---- items
        let mut adts: Vec<String> = Vec::new();
        let mut impls: Vec<String> = Vec::new();
        let mut fns: Vec<String> = Vec::new();
        let mut macros: Vec<String> = Vec::new();
        let mut unsafe_blocks: Vec<String> = Vec::new();
        let items = tcx.hir_crate_items(());
        let mut all_defs: Vec<rustc_hir::def_id::LocalDefId> = items.definitions().collect();
        all_defs.sort_by_key(|d| d.local_def_index.as_usize());
        for ld in all_defs {
            let did = ld.to_def_id();
            match tcx.def_kind(did) {
                DefKind::Struct | DefKind::Enum | DefKind::Union => {
                    let adt = tcx.adt_def(did);
                    let (sp, _) = cx.span_str(tcx.def_span(did));
                    let mut vs: Vec<String> = Vec::new();
                    for v in adt.variants().iter() {
                        let mut fs: Vec<String> = Vec::new();
                        for f in v.fields.iter() {
                            let ft = tcx.type_of(f.did).instantiate_identity().skip_norm_wip();
                            fs.push(format!("{{\"name\":{},\"ty\":{},\"vis\":{}}}", esc(f.name.as_str()), cx.ty_id(ft), esc(&format!("{:?}", f.vis))));
                        }
                        vs.push(format!("{{\"name\":{},\"fields\":[{}]}}", esc(v.name.as_str()), fs.join(",")));
                    }
                    let gens: Vec<String> = tcx.generics_of(did).own_params.iter().map(|p| esc(p.name.as_str())).collect();
                    adts.push(format!(
                        "{{\"path\":{},\"kind\":{},\"span\":{},\"vis\":{},\"reach\":{},\"generics\":[{}],\"variants\":[{}]}}",
                        esc(&tcx.def_path_str(did)),
                        esc(&format!("{:?}", tcx.def_kind(did))),
                        esc(&sp),
                        esc(&format!("{:?}", tcx.visibility(did))),
                        tcx.effective_visibilities(()).is_reachable(ld),
                        gens.join(","),
                        vs.join(",")
                    ));
                }
                DefKind::Impl { of_trait } => {
                    let st = tcx.type_of(did).instantiate_identity().skip_norm_wip();
                    let (sp, _) = cx.span_str(tcx.def_span(did));
                    let mut tr = String::new();
                    let mut tr_args: Vec<String> = Vec::new();
                    let mut is_unsafe = false;
                    let mut negative = false;
                    if of_trait {
                        let t = tcx.impl_trait_ref(did).instantiate_identity().skip_norm_wip();
                        tr = tcx.def_path_str(t.def_id);
                        tr_args = t.args.iter().skip(1).filter_map(|a| a.as_type()).map(|x| cx.ty_id(x).to_string()).collect();
                        let h = tcx.impl_trait_header(did);
                        is_unsafe = format!("{:?}", h.safety).contains("Unsafe");
                        negative = format!("{:?}", h.polarity).contains("Negative");
                    }
                    let preds: Vec<String> = tcx.predicates_of(did).instantiate_identity(tcx).predicates.iter().map(|p| esc(&format!("{}", p.skip_norm_wip()))).collect();
                    let assoc: Vec<String> = tcx.associated_item_def_ids(did).iter().map(|d| esc(&cx.qname(*d))).collect();
                    impls.push(format!(
                        "{{\"self\":{},\"self_q\":{},\"trait\":{},\"trait_args\":[{}],\"unsafe\":{},\"negative\":{},\"auto_derived\":{},\"preds\":[{}],\"items\":[{}],\"span\":{}}}",
                        cx.ty_id(st),
                        esc(&cx.ty_q(st)),
                        esc(&tr),
                        tr_args.join(","),
                        is_unsafe,
                        negative,
                        tcx.is_automatically_derived(did),
                        preds.join(","),
                        assoc.join(","),
                        esc(&sp)
                    ));
                }
                DefKind::Fn | DefKind::AssocFn => {
                    let sig = tcx.fn_sig(did).instantiate_identity().skip_norm_wip().skip_binder();
                    let (sp, _) = cx.span_str(tcx.def_span(did));
                    let ins: Vec<String> = sig.inputs().iter().map(|t| cx.ty_id(*t).to_string()).collect();
                    let outp = cx.ty_id(sig.output());
                    let has_body = tcx.is_mir_available(did);
                    fns.push(format!(
                        "{{\"q\":{},\"path\":{},\"vis\":{},\"reach\":{},\"unsafe\":{},\"inputs\":[{}],\"output\":{},\"span\":{},\"has_body\":{}}}",
                        esc(&cx.qname(did)),
                        esc(&tcx.def_path_str(did)),
                        esc(&format!("{:?}", tcx.visibility(did))),
                        tcx.effective_visibilities(()).is_reachable(ld),
                        format!("{:?}", sig.safety()).contains("Unsafe"),
                        ins.join(","),
                        outp,
                        esc(&sp),
                        has_body
                    ));
                }
                DefKind::Macro(..) => {
                    let (sp, _) = cx.span_str(tcx.def_span(did));
                    macros.push(format!("{{\"name\":{},\"span\":{}}}", esc(tcx.item_name(did).as_str()), esc(&sp)));
                }
                _ => {}
            }
        }
        // unsafe blocks (HIR)
        for ld in tcx.hir_body_owners() {
            let did = ld.to_def_id();
            if !matches!(tcx.def_kind(did), DefKind::Fn | DefKind::AssocFn | DefKind::Closure) {
                continue;
            }
            let owner = cx.qname(did);
            let body = tcx.hir_body_owned_by(ld);
            let mut f = UnsafeFinder { out: &mut unsafe_blocks, owner, sm: tcx.sess.source_map() };
            rustc_hir::intravisit::Visitor::visit_body(&mut f, body);
        }

        // ---- bodies
        let mut bodies: Vec<String> = Vec::new();
        let mut keys: Vec<_> = tcx.mir_keys(()).iter().copied().collect();
        keys.sort_by_key(|d| d.local_def_index.as_usize());
        for def in keys {
            let did = def.to_def_id();
            let dk = tcx.def_kind(did);
            if !matches!(dk, DefKind::Fn | DefKind::AssocFn | DefKind::Closure) {
                continue;
            }
            bodies.push(cx.body_json(did));
        }
        let doc = format!(
            "{{\"crate\":{},\"types\":[\n{}\n],\"adts\":[\n{}\n],\"impls\":[\n{}\n],\"fns\":[\n{}\n],\"macros\":[{}],\"unsafe_blocks\":[{}],\"bodies\":[\n{}\n]}}\n",
            esc(krate.as_str()),
            cx.types.join(",\n"),
            adts.join(",\n"),
            impls.join(",\n"),
            fns.join(",\n"),
            macros.join(","),
            unsafe_blocks.join(","),
            bodies.join(",\n")
        );
        let tmp = format!("{}.tmp{}", out, std::process::id());
        std::fs::write(&tmp, doc).expect("write facts");
        std::fs::rename(&tmp, &out).expect("rename facts");
        Compilation::Continue
    }
}

fn main() {
    let mut args: Vec<String> = std::env::args().collect();
    // wrapper protocol: argv[1] is the real rustc; direct use: argv[1] == "rustc"
    if args.len() > 1 && (args[1].ends_with("rustc") || args[1].contains("/rustc")) {
        args.remove(1);
    }
    rustc_driver::run_compiler(&args, &mut Cb);
}
