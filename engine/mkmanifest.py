#!/usr/bin/env python3
"""Regenerates /verif/MANIFEST.json from the property registry (engine/gdslint/props.py)."""
import json, os, sys
HERE = os.path.dirname(os.path.abspath(__file__))
sys.path.insert(0, HERE)
from gdslint import props

VERIF = os.path.dirname(HERE)
ALL = [json.loads(l)['id'] for l in open(os.path.join(VERIF, 'properties.jsonl'))]
checks = []
for pid in ALL:
    if pid not in props.PROPS:
        continue
    s = props.PROPS[pid]
    checks.append({
        'property_id': pid,
        'quick_cmd': './check %s --tier quick' % pid,
        'thorough_cmd': './check %s --tier thorough' % pid,
        'evidence_file': 'evidence/%s.json' % pid,
        'replay_cmd_template': './check %s --tier quick   # static check: re-run on the same tree; {path} describes the construct' % pid,
        'engine': 'gdslint',
        'level_claimed': {
            'category': s.get('level', 'other'),
            'text': s.get('level_text', s['explanation']),
            'design_ref': 'DESIGN.md §4 ' + pid,
        },
        'level_note': s.get('level_note', 'Trusted: rustc front end and MIR construction, the fact extractor, std collection/pointer/cell semantics, purity of payload trait impls. '
                            'Decides: ' + s.get('decides', '') + ' Does not decide: ' + s.get('does_not_decide', '')),
        'technique': s.get('technique', 'static analysis: custom MIR dataflow / dominance / provenance rules via a rustc_private driver'),
    })
na = [{'property_id': pid, 'reason': props.NOT_APPLICABLE.get(pid, 'check not built yet in this round; see DESIGN.md §8')} for pid in ALL if pid not in props.PROPS]
m = {
    'version': 1,
    'setup_cmd': './setup.sh',
    'hooks': {
        'guard': 'gdsl_verif',
        'enable': 'none needed: the static checks read unmodified source (no cfg-guarded hooks exist in /repo)',
        'baseline_off_cmd': 'cd /repo && cargo test --workspace --no-fail-fast --offline',
        'source_commits': [],
        'add_only': True,
    },
    'engines': [
        {'name': 'gdsl-facts', 'path': 'engine/driver', 'serves_properties': [c['property_id'] for c in checks], 'kind_free_text': 'rustc_private fact extractor (types, impls, MIR with resolved callees)'},
        {'name': 'gdslint', 'path': 'engine/gdslint', 'serves_properties': [c['property_id'] for c in checks], 'kind_free_text': 'python rule engine: CFG/dominators, provenance, guard liveness, effects, sibling agreement, witnesses'},
    ],
    'checks': checks,
    'not_applicable': na,
    'notes': 'All checks are static: they analyse /repo\'s current working tree (cargo +nightly check with a rustc_private wrapper) and never execute gdsl code.',
}
json.dump(m, open(os.path.join(VERIF, 'MANIFEST.json'), 'w'), indent=1)
print('MANIFEST.json: %d checks, %d not_applicable' % (len(checks), len(na)))
