#!/usr/bin/env python3
"""Confirms a seeded change and records which checks catch it.

  seedeval.py <NAME> <PROPERTY> <dir with patch.diff, seed_demo.rs[, notes.md]>

1. scratch worktree of /repo HEAD (under /tmp): demo passes without the change;
2. with the change: crate builds, the existing suite passes, the demo fails;
3. applies the patch to /repo itself, runs every check, undoes it (git checkout -- .);
4. writes /verif/seeded/<NAME>/{patch.diff, seed_demo.rs, notes.md, meta.json}.
"""
import os, sys, re, json, shutil, subprocess, tempfile

HERE = os.path.dirname(os.path.abspath(__file__))
VERIF = os.path.dirname(HERE)
REPO = '/repo'
TGT = '/tmp/seedeval-target'


def sh(cmd, cwd=None, env=None):
    e = dict(os.environ)
    e['CARGO_NET_OFFLINE'] = 'true'
    if env:
        e.update(env)
    r = subprocess.run(cmd, cwd=cwd, stdout=subprocess.PIPE, stderr=subprocess.STDOUT, text=True, env=e, shell=isinstance(cmd, str))
    return r.returncode, r.stdout


def main():
    name, prop, src = sys.argv[1], sys.argv[2], os.path.abspath(sys.argv[3])
    patch = os.path.join(src, 'patch.diff')
    demo = os.path.join(src, 'seed_demo.rs')
    assert os.path.exists(patch) and os.path.exists(demo), 'missing deliverables'
    wt = tempfile.mkdtemp(prefix='seedeval-')
    os.rmdir(wt)
    meta = {'name': name, 'property': prop, 'ran': []}
    try:
        rc, out = sh(['git', '-C', REPO, 'worktree', 'add', '--detach', wt, 'HEAD'])
        assert rc == 0, out
        shutil.copy(demo, os.path.join(wt, 'tests', 'seed_demo.rs'))
        env = {'CARGO_TARGET_DIR': TGT}
        rc, out = sh('cargo test --offline --test seed_demo 2>&1 | tail -15', cwd=wt, env=env)
        ok_without = 'test result: ok' in out and 'FAILED' not in out
        meta['ran'].append({'cmd': 'cargo test --offline --test seed_demo (unchanged tree)', 'passed': ok_without})
        rc, o2 = sh(['git', 'apply', patch], cwd=wt)
        assert rc == 0, 'patch does not apply: ' + o2
        rc, out2 = sh('cargo test --workspace --no-fail-fast --offline 2>&1 | grep -E "^test result|^error|Running|Doc-tests|FAILED" ', cwd=wt, env=env)
        # split per target
        blocks = re.split(r'(?=^\s+(?:Running|Doc-tests) )', out2, flags=re.M)
        base_ok, demo_failed, compiled = True, False, 'error' not in out2.split('\n')[0]
        for b in blocks:
            if 'seed_demo' in b.split('\n')[0]:
                demo_failed = 'FAILED' in b or 'error: test failed' in b      # (an abort -- stack overflow, SIGABRT -- prints no FAILED line)
            elif 'test result' in b and 'FAILED' in b:
                base_ok = False
        if re.search(r'^error', out2, re.M) and not demo_failed:
            compiled = False
            # a compile-time demonstration: the demo target itself no longer compiles with the change
            rc3, out3 = sh('cargo test --workspace --no-fail-fast --offline 2>&1 | grep -E "could not compile" | head -5', cwd=wt, env=env)
            if 'seed_demo' in out3 and 'lib' not in out3.split('seed_demo')[0][-40:]:
                os.rename(os.path.join(wt, 'tests', 'seed_demo.rs'), os.path.join(wt, 'seed_demo.rs.aside'))
                rc4, out4 = sh('cargo test --workspace --no-fail-fast --offline 2>&1 | grep -E "^test result|^error|FAILED" ', cwd=wt, env=env)
                base_ok = 'FAILED' not in out4 and not re.search(r'^error', out4, re.M) and 'test result: ok' in out4
                demo_failed = True
                meta['demo_kind'] = 'compile-time: tests/seed_demo.rs does not compile against the changed crate'
        meta['ran'].append({'cmd': 'cargo test --workspace --no-fail-fast --offline (with the change)', 'existing_suite_passed': base_ok, 'demo_failed': demo_failed})
        confirmed = ok_without and base_ok and demo_failed
        meta['confirmed'] = confirmed
        print('demo passes without change: %s | existing suite passes with change: %s | demo fails with change: %s' % (ok_without, base_ok, demo_failed))
        if not confirmed:
            print(out[-1500:])
            print(out2[-1500:])
    finally:
        sh(['git', '-C', REPO, 'worktree', 'remove', '--force', wt])
    if not meta.get('confirmed'):
        print('NOT CONFIRMED: not kept')
        return 1
    # run the checks against /repo with the change applied
    rc, out = sh(['git', '-C', REPO, 'status', '--porcelain'])
    assert out.strip() == '', '/repo is dirty'
    caught = {}
    try:
        rc, o = sh(['git', '-C', REPO, 'apply', patch])
        assert rc == 0, o
        props = [json.loads(l)['id'] for l in open(os.path.join(VERIF, 'properties.jsonl'))]
        for p in props:
            rc, o = sh([os.path.join(VERIF, 'check'), p, '--no-evidence'])
            rules = sorted(set(re.findall(r'^\s+rule=(\S+)', o, re.M)))
            if rc == 1:
                caught[p] = rules
            elif rc == 2:
                caught[p] = ['<does not analyse>']
    finally:
        sh(['git', '-C', REPO, 'checkout', '--', '.'])
    meta['caught_by'] = caught
    meta['caught_by_own_property'] = prop in caught
    d = os.path.join(VERIF, 'seeded', name)
    os.makedirs(d, exist_ok=True)
    if os.path.abspath(d) != src:
        shutil.copy(patch, os.path.join(d, 'patch.diff'))
        shutil.copy(demo, os.path.join(d, 'seed_demo.rs'))
        if os.path.exists(os.path.join(src, 'notes.md')):
            shutil.copy(os.path.join(src, 'notes.md'), os.path.join(d, 'notes.md'))
    meta['needs'] = 'see notes.md'
    if os.path.exists(os.path.join(d, 'meta.json')):
        try:
            oldm = json.load(open(os.path.join(d, 'meta.json')))
            for k in ('summary', 'needs'):
                if k in oldm and oldm[k] != 'see notes.md':
                    meta[k] = oldm[k]
        except ValueError:
            pass
    json.dump(meta, open(os.path.join(d, 'meta.json'), 'w'), indent=1)
    print('caught by:', json.dumps(caught))
    print('OWN PROPERTY %s: %s' % (prop, 'CAUGHT' if prop in caught else 'MISSED'))
    return 0


if __name__ == '__main__':
    sys.exit(main())
