#!/usr/bin/env python3
"""prints the markdown table 'which checks catch which seeded changes' from /verif/seeded/*/meta.json"""
import os, json, re
V = os.path.dirname(os.path.dirname(os.path.abspath(__file__)))
rows = []
for n in sorted(os.listdir(os.path.join(V, 'seeded'))):
    mp = os.path.join(V, 'seeded', n, 'meta.json')
    if not os.path.exists(mp):
        continue
    m = json.load(open(mp))
    notes = open(os.path.join(V, 'seeded', n, 'notes.md')).read() if os.path.exists(os.path.join(V, 'seeded', n, 'notes.md')) else ''
    patch = open(os.path.join(V, 'seeded', n, 'patch.diff')).read()
    files = sorted(set(re.findall(r'^\+\+\+ b/(\S+)', patch, re.M)))
    what = m.get('summary') or ''
    own = m['property']
    cb = m.get('caught_by', {})
    own_rules = ', '.join(cb.get(own, [])) or '**missed**'
    others = '; '.join('%s: %s' % (p, ', '.join(r)) for p, r in sorted(cb.items()) if p != own)
    rows.append('| `%s` | %s | %s | %s | %s | %s |' % (n, own, ', '.join(f.replace('src/', '') for f in files), what, own_rules, others))
print('| seeded change | property | file(s) | what it does / what it needs | caught by the property\'s own check (rules) | also reported by |')
print('|---|---|---|---|---|---|')
print('\n'.join(rows))
