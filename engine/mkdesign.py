#!/usr/bin/env python3
"""refreshes the generated seeded-change table inside DESIGN.md"""
import os, re, subprocess
V = os.path.dirname(os.path.dirname(os.path.abspath(__file__)))
t = subprocess.run(['python3', os.path.join(V, 'engine', 'mkseedtable.py')], stdout=subprocess.PIPE, text=True).stdout
p = os.path.join(V, 'DESIGN.md')
s = open(p).read()
s = re.sub(r'<!-- SEEDTABLE:BEGIN -->.*?<!-- SEEDTABLE:END -->', '<!-- SEEDTABLE:BEGIN -->\n' + t.replace('\\', '\\\\') + '<!-- SEEDTABLE:END -->', s, flags=re.S)
open(p, 'w').write(s)
print('DESIGN.md table refreshed (%d rows)' % (t.count('\n') - 2))
