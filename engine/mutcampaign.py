#!/usr/bin/env python3
"""Generic mutation campaign (checker validation, not a check): single-site source mutations of /repo/src that still compile
and still pass the repository's own tests are exactly the 'realistic changes the tests cannot see'.  Each such test-survivor is
handed to all 20 checks; survivors that no check reports are listed for triage (equivalent mutant, out of scope, or a gap).

  mutcampaign.py --out FILE.jsonl [--jobs N] [--only REGEX-on-path] [--ops a,b,..] [--limit N] [--seed S]

Scratch copies and target dirs live under a mkdtemp outside /repo and /verif and are removed at the end.
"""
import os, sys, re, json, shutil, subprocess, tempfile, argparse, time, random, signal, threading, queue

HERE = os.path.dirname(os.path.abspath(__file__))
VERIF = os.path.dirname(HERE)
REPO = os.environ.get('GDSL_REPO', '/repo')

OPS = []


def op(name):
    def deco(f):
        OPS.append((name, f))
        return f
    return deco


def _subs(line, pat, repl, maxn=4):
    """all single-occurrence substitutions of regex pat in line"""
    out = []
    for m in list(re.finditer(pat, line))[:maxn]:
        new = line[:m.start()] + (repl(m) if callable(repl) else m.expand(repl)) + line[m.end():]
        if new != line:
            out.append(new)
    return out


@op('negate-if')
def _(line):
    m = re.match(r'^(\s*(?:\} else )?if )(?!let )(.+?)( \{\s*)$', line)
    return [m.group(1) + '!(' + m.group(2) + ')' + m.group(3)] if m else []


@op('eq-ne')
def _(line):
    return _subs(line, r' == ', ' != ') + _subs(line, r' != ', ' == ')


@op('and-or')
def _(line):
    return _subs(line, r' && ', ' || ') + _subs(line, r' \|\| ', ' && ')


@op('rel')
def _(line):
    return _subs(line, r' < ', ' <= ') + _subs(line, r' <= ', ' < ') + _subs(line, r' > ', ' >= ') + _subs(line, r' >= ', ' > ')


@op('plus-minus-one')
def _(line):
    return _subs(line, r' \+ 1\b', ' + 0') + _subs(line, r' - 1\b', ' - 0') + _subs(line, r'\+= 1\b', '+= 2') + _subs(line, r'\bskip\(1\)', 'skip(0)')


@op('del-stmt')
def _(line):
    if re.match(r'^\s*[\w\.\(\)&\*]+\.(push|push_back|push_front|insert|clear\w*|remove\w*|reverse|append|extend|pop\w*|clear)\(.*\);\s*$', line) and 'let ' not in line:
        return [re.match(r'^\s*', line).group(0) + '();' + '\n' if line.endswith('\n') else '();']
    return []


@op('bool-flip')
def _(line):
    return _subs(line, r'\breturn true;', 'return false;') + _subs(line, r'\breturn false;', 'return true;') + \
        _subs(line, r'=> true,', '=> false,') + _subs(line, r'=> false,', '=> true,')


@op('swap-dir')
def _(line):
    out = []
    for a, b in (('iter_out', 'iter_in'), ('outbound', 'inbound'), ('pop_front', 'pop_back'), ('push_back', 'push_front'), ('Min', 'Max'), ('Pre', 'Post'),
                 ('Outbound', 'Inbound'), ('is_root', 'is_leaf'), ('first', 'last'), ('read()', 'write()')):
        out += _subs(line, r'\b%s\b' % re.escape(a) if a[-1].isalnum() else re.escape(a), b, 2)
        out += _subs(line, r'\b%s\b' % re.escape(b) if b[-1].isalnum() else re.escape(b), a, 2)
    return out


@op('field-swap')
def _(line):
    return _subs(line, r'\.0\b(?!\.)', '.1', 2) + _subs(line, r'\.1\b(?!\.)', '.0', 2)


@op('continue-break')
def _(line):
    return _subs(line, r'\bcontinue\b', 'break') + _subs(line, r'\bbreak;', 'continue;')


@op('some-none')
def _(line):
    return _subs(line, r'\breturn None;', 'return Default::default();') if False else []


@op('clone-key')
def _(line):
    # v.key() <-> node/u key confusions
    return _subs(line, r'\bv\.key\(\)', 'node.key()', 1) + _subs(line, r'\bself\.key\(\)', 'other.key()', 1) + _subs(line, r'\bother\.key\(\)', 'self.key()', 1)


@op('not-del')
def _(line):
    return _subs(line, r'(?<![=!<>])!(?=[a-z_(])', '', 3)


@op('uv-swap')
def _(line):
    out = []
    for a, b in (('u', 'v'), ('un', 'vn'), ('self', 'other'), ('source', 'target'), ('node', 'v'), ('s', 't')):
        out += _subs(line, r'(?<![\w.])%s(?=\.(key|value|clone|inner|0|1)\b|\b[,)])' % a, b, 2)
        out += _subs(line, r'(?<![\w.])%s(?=\.(key|value|clone|inner|0|1)\b|\b[,)])' % b, a, 2)
    return out


@op('edge-arg-swap')
def _(line):
    m = re.search(r'\bEdge\(([^,()]+(?:\([^()]*\))?[^,()]*), ([^,()]+(?:\([^()]*\))?[^,()]*), ', line)
    if m and '->' not in line and 'struct' not in line and 'for ' not in line and 'let ' not in line and '|' not in line:
        return [line[:m.start(1)] + m.group(2) + ', ' + m.group(1) + line[m.end(2):]]
    return []


@op('rev-del')
def _(line):
    return _subs(line, r'\.rev\(\)', '') + _subs(line, r'\.skip\(1\)', '.skip(2)') + _subs(line, r'\.reverse\(\);', '.len();')


@op('zero-one')
def _(line):
    return _subs(line, r'(?<![\w.])0(?![\w.])', '1', 2) + _subs(line, r'== 1\b', '== 2')


@op('ok-none')
def _(line):
    return _subs(line, r'\breturn Some\(([^;]+)\);', 'return None;') + _subs(line, r'=> Some\(([^,]+)\),$', '=> None,')


@op('cond-const')
def _(line):
    m = re.match(r'^(\s*(?:\} else )?(?:if|while) )(?!let )(.+?)( \{\s*)$', line)
    return [m.group(1) + 'true' + m.group(3), m.group(1) + 'false' + m.group(3)] if m else []


@op('iter-rev')
def _(line):
    return _subs(line, r'\.iter\(\)(?!\.rev)', '.iter().rev()', 2) + _subs(line, r'\.enumerate\(\)', '.enumerate().skip(1)', 1) + _subs(line, r'\.values\(\)', '.values().skip(1)', 1)


@op('pred-flip')
def _(line):
    out = []
    for a, b in (('is_some', 'is_none'), ('is_ok', 'is_err'), ('contains', 'insert'), ('is_orphan', 'is_leaf'), ('in_degree', 'out_degree'), ('degree', 'out_degree'), ('source', 'target'),
                 ('find_adjacent', 'find_outbound'), ('get_adjacent', 'get_outbound'), ('len_outbound', 'len_inbound'), ('preorder', 'postorder'), ('forward', 'backward')):
        out += _subs(line, r'\.%s\(' % a, '.%s(' % b, 2)
        out += _subs(line, r'\.%s\(' % b, '.%s(' % a, 2)
    return out


@op('plus-minus')
def _(line):
    if '->' in line or 'where' in line or ': ' in line and '+' in line and ('Clone' in line or 'Hash' in line or 'Send' in line):
        return []
    return _subs(line, r' \+ (?=[\w(])', ' - ', 2) + _subs(line, r' - (?=[\w(])', ' + ', 2)


@op('arg-swap2')
def _(line):
    out = []
    for m in list(re.finditer(r'(\w+)\((&?\w+(?:\.\w+\(\))?), (&?\w+(?:\.\w+\(\))?)(?=[,)])', line))[:3]:
        if m.group(1) in ('fn', 'Edge', 'Some', 'Ok', 'Err') or m.group(2) == m.group(3) or 'fn ' in line or '|' in line:
            continue
        out.append(line[:m.start(2)] + m.group(3) + ', ' + m.group(2) + line[m.end(3):])
    return out


@op('del-any')
def _(line):
    if re.match(r'^\s*(?!let |return|break|continue|if |for |while |match |\}|//|pub |fn |use )[\w\.\(\)&\*\[\]:]+(\(.*\)| [+\-]?= .*);\s*$', line):
        return [re.match(r'^\s*', line).group(0) + '();' + ('\n' if line.endswith('\n') else '')]
    return []


@op('lit-bool')
def _(line):
    if 'return' in line or '=>' in line:
        return []
    return _subs(line, r'\btrue\b', 'false', 2) + _subs(line, r'\bfalse\b', 'true', 2)


@op('deref-clone')
def _(line):
    # handle confusion: a clone of a handle vs the other handle in scope; key of one thing vs another
    return _subs(line, r'\bedge\.1\b', 'edge.0', 2) + _subs(line, r'\bedge\.0\b', 'edge.1', 2) + _subs(line, r'\bnode\.clone\(\)', 'self.root.clone()', 1) + _subs(line, r'\bself\.root\b', 'node', 1)


@op('idx-shift')
def _(line):
    return _subs(line, r'\.get\((\w[\w\.\(\)]*)\)', r'.get(\1 + 1)', 2) + _subs(line, r'\[0\]', '[1]', 1) + _subs(line, r'\.len\(\)(?! [-+] 1)', '.len() - 1', 1) + \
        _subs(line, r'\.first\(\)', '.get(1)', 1) + _subs(line, r'\.pop\(\)', '.first().cloned()', 1)


@op('loop-once')
def _(line):
    # the closing brace of a loop body cannot be recognised line-wise; instead make the loop header iterate at most once
    m = re.match(r'^(\s*for .+ in )(.+?)( \{\s*)$', line)
    if m and '.take(' not in m.group(2):
        return [m.group(1) + '(' + m.group(2) + ').into_iter().take(1)' + m.group(3)]
    return []


@op('ret-swap')
def _(line):
    return _subs(line, r'\bOk\(\(\)\)', 'Err(Error::EdgeNotFound)', 1) + _subs(line, r'\bErr\(Error::EdgeAlreadyExists\)', 'Ok(())', 1) + _subs(line, r'\bErr\(Error::EdgeNotFound\)', 'Err(Error::EdgeAlreadyExists)', 2)


def code_lines(path):
    """(lineno, text) of mutable code lines: not comments, not doc comments, not attributes, not inside #[cfg(test)]"""
    out = []
    in_test = False
    for i, l in enumerate(open(path).read().split('\n')):
        s = l.strip()
        if s.startswith('#[cfg(test)]'):
            in_test = True
        if in_test:
            continue
        if not s or s.startswith('//') or s.startswith('#[') or s.startswith('use ') or s.startswith('pub use '):
            continue
        if 'macro_rules!' in s:
            pass
        out.append((i, l))
    return out


def enumerate_mutants(only, ops):
    muts = []
    for root, _, files in os.walk(os.path.join(REPO, 'src')):
        for f in sorted(files):
            if not f.endswith('.rs'):
                continue
            p = os.path.join(root, f)
            rel = os.path.relpath(p, REPO)
            if only and not re.search(only, rel):
                continue
            cl = code_lines(p)
            for i, l in cl:
                for name, fn in OPS:
                    if ops and name not in ops:
                        continue
                    for new in fn(l):
                        muts.append({'file': rel, 'line': i + 1, 'op': name, 'old': l.strip(), 'new': new.strip(), 'new_raw': new})
            # statement-level operators on pairs of adjacent simple statements of the same block
            simple = re.compile(r'^(\s*)(?!let |return|break|continue|if |for |while |match |\}|//)[\w\.\(\)&\*:<>, !\[\]\"\'{}$=+\-?|]+;\s*$')
            for (i, l), (j, l2) in zip(cl, cl[1:]):
                m1, m2 = simple.match(l), simple.match(l2)
                if j == i + 1 and m1 and m2 and m1.group(1) == m2.group(1) and l.strip() != l2.strip():
                    if not ops or 'swap-stmts' in ops:
                        muts.append({'file': rel, 'line': i + 1, 'op': 'swap-stmts', 'old': l.strip() + ' / ' + l2.strip(), 'new': l2.strip() + ' / ' + l.strip(), 'new_raw': l2, 'line2': j + 1, 'new_raw2': l})
            for i, l in cl:
                if (not ops or 'dup-stmt' in ops) and re.match(r'^\s*[\w\.\(\)&\*]+\.(push|push_back|push_front|push_str|insert|remove\w*|pop\w*|reverse|append|extend)\(.*\);\s*$', l) and 'let ' not in l:
                    muts.append({'file': rel, 'line': i + 1, 'op': 'dup-stmt', 'old': l.strip(), 'new': l.strip() + ' ' + l.strip(), 'new_raw': l + '\n' + l})
    return muts


def run(cmd, cwd, env, timeout):
    p = subprocess.Popen(cmd, cwd=cwd, env=env, stdout=subprocess.PIPE, stderr=subprocess.STDOUT, text=True, shell=isinstance(cmd, str), start_new_session=True)
    try:
        out, _ = p.communicate(timeout=timeout)
        return p.returncode, out
    except subprocess.TimeoutExpired:
        try:
            os.killpg(p.pid, signal.SIGKILL)
        except Exception:
            pass
        p.communicate()
        return -9, 'TIMEOUT'


def worker(wdir, q, results, lock, props):
    repo = os.path.join(wdir, 'repo')
    env = dict(os.environ)
    env['CARGO_NET_OFFLINE'] = 'true'
    env['CARGO_TARGET_DIR'] = os.path.join(wdir, 'target')
    env['GDSL_WORK'] = os.path.join(wdir, 'work')
    os.makedirs(env['GDSL_WORK'], exist_ok=True)
    while True:
        try:
            m = q.get_nowait()
        except queue.Empty:
            return
        path = os.path.join(repo, m['file'])
        orig = open(path).read()
        lines = orig.split('\n')
        lines[m['line'] - 1] = m['new_raw'].rstrip('\n')
        if m.get('line2'):
            lines[m['line2'] - 1] = m['new_raw2'].rstrip('\n')
        open(path, 'w').write('\n'.join(lines))
        res = dict(m)
        res.pop('new_raw', None)
        res.pop('new_raw2', None)
        t0 = time.time()
        try:
            rc, out = run('cargo build --offline --lib 2>&1 | tail -3', repo, env, 180)
            if 'error' in out and 'Finished' not in out:
                res['status'] = 'does-not-compile'
            else:
                rc, out = run('cargo test --workspace --offline --no-fail-fast --tests 2>&1 | grep -E "^test result|^error|panicked|FAILED" | head -20', repo, env, 150)
                if out == 'TIMEOUT':
                    res['status'] = 'killed-timeout'
                elif re.search(r'^error', out, re.M):
                    res['status'] = 'does-not-compile'
                elif 'FAILED' in out or re.search(r'\b[1-9]\d* failed', out) or 'panicked' in out:
                    res['status'] = 'killed-by-tests'
                elif 'test result: ok' in out:
                    rc2, out2 = run('cargo test --workspace --offline --no-fail-fast --doc 2>&1 | grep -E "^test result|^error|FAILED" | head -5', repo, env, 400)
                    if 'FAILED' in out2 or re.search(r'^error', out2, re.M) or out2 == 'TIMEOUT':
                        res['status'] = 'killed-by-doctests'
                    else:
                        res['status'] = 'survived-tests'
                else:
                    res['status'] = 'unknown'
                    res['detail'] = out[-300:]
            if res['status'] == 'survived-tests':
                facts = os.path.join(env['GDSL_WORK'], 'mc.json')
                rc, out = run([os.path.join(VERIF, 'engine', 'facts.sh'), repo, facts], VERIF, env, 300)
                fired = {}
                if not os.path.exists(facts):
                    res['checks'] = 'facts-failed'
                else:
                    for pid in props:
                        rc, out = run([os.path.join(VERIF, 'check'), pid, '--facts', facts, '--repo', repo, '--no-evidence'], VERIF, env, 600)
                        if rc != 0:
                            fired[pid] = sorted(set(re.findall(r'^\s+rule=(\S+)', out, re.M))) or ['exit%d' % rc]
                    res['fired'] = fired
                    res['flagged'] = bool(fired)
                    os.remove(facts)
                    shutil.rmtree(facts[:-5] + '.d', ignore_errors=True)
        finally:
            open(path, 'w').write(orig)
        res['wall_s'] = round(time.time() - t0, 1)
        with lock:
            results.write(json.dumps(res) + '\n')
            results.flush()


def main():
    ap = argparse.ArgumentParser()
    ap.add_argument('--out', required=True)
    ap.add_argument('--jobs', type=int, default=4)
    ap.add_argument('--only')
    ap.add_argument('--ops')
    ap.add_argument('--limit', type=int, default=0)
    ap.add_argument('--seed', type=int, default=1)
    ap.add_argument('--list', action='store_true')
    a = ap.parse_args()
    ops = set(a.ops.split(',')) if a.ops else None
    muts = enumerate_mutants(a.only, ops)
    random.Random(a.seed).shuffle(muts)
    done = set()
    if os.path.exists(a.out):
        for l in open(a.out):
            try:
                d = json.loads(l)
                done.add((d['file'], d['line'], d['op'], d['new']))
            except ValueError:
                pass
    muts = [m for m in muts if (m['file'], m['line'], m['op'], m['new']) not in done]
    if a.limit:
        muts = muts[:a.limit]
    print('%d mutants to run (%d already done)' % (len(muts), len(done)))
    if a.list:
        for m in muts[:50]:
            print(m['file'], m['line'], m['op'], '|', m['old'], '=>', m['new'])
        return 0
    props = [json.loads(l)['id'] for l in open(os.path.join(VERIF, 'properties.jsonl'))]
    base = tempfile.mkdtemp(prefix='gdslmc-')
    q = queue.Queue()
    for m in muts:
        q.put(m)
    lock = threading.Lock()
    results = open(a.out, 'a')
    try:
        ths = []
        for i in range(a.jobs):
            w = os.path.join(base, 'w%d' % i)
            os.makedirs(w)
            subprocess.run(['rsync', '-a', '--exclude', 'target', '--exclude', '.git', REPO + '/', os.path.join(w, 'repo') + '/'], check=True)
            t = threading.Thread(target=worker, args=(w, q, results, lock, props))
            t.start()
            ths.append(t)
        for t in ths:
            t.join()
    finally:
        results.close()
        shutil.rmtree(base, ignore_errors=True)
    return 0


if __name__ == '__main__':
    sys.exit(main())
