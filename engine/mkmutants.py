#!/usr/bin/env python3
"""Generates /verif/mutants/*.diff + index.json from a table of anchored source edits (run by hand).
Each edit must match exactly once in the current /repo tree; reverts of the fix commits are added as well."""
import os, sys, json, difflib, subprocess, re
HERE = os.path.dirname(os.path.abspath(__file__))
VERIF = os.path.dirname(HERE)
MUT = os.path.join(VERIF, 'mutants')
REPO = '/repo'

T = []


def m(name, file, old, new, expect, count=1):
    T.append((name, file, old, new, expect, count))


D = 'src/digraph/'
SD = 'src/sync_digraph/'
U = 'src/ungraph/'
SU = 'src/sync_ungraph/'

# ---- C01 / C02 / C03: edge operations
m('connect_drop_mirror_push', D + 'node/mod.rs', '''        other
            .inner
            .2
            .borrow_mut()
            .push_inbound((self.clone(), value));
''', '''        let _ = (other, value);
''', [['C01', 'P1'], ['C03', 'P1']])
m('connect_mirror_to_self', SD + 'node/mod.rs', '''            .push_inbound((self.clone(), value));''', '''            .push_inbound((other.clone(), value));''', [['C01', 'P1']])
m('disconnect_wrong_mirror_key', D + 'node/mod.rs', 'other.inner.2.borrow_mut().remove_inbound(self.key())?;', 'other.inner.2.borrow_mut().remove_inbound(other.key())?;', [['C01', 'P2']])
m('disconnect_mirror_wrong_list', SD + 'node/mod.rs', 'other.inner.2.write().unwrap().remove_inbound(self.key())?;', 'other.inner.2.write().unwrap().remove_outbound(self.key())?;', [['C01', 'P2']])
m('adjacent_swap_remove', D + 'node/adjacent.rs', 'return Ok(self.inbound.remove(idx).1);', 'return Ok(self.inbound.swap_remove(idx).1);', [['C01', 'ENC-b'], ['C03', 'ENC-b']])
m('adjacent_push_front', SD + 'node/adjacent.rs', 'self.outbound.push((WeakNode::downgrade(&edge.0), edge.1));', 'self.outbound.insert(0, (WeakNode::downgrade(&edge.0), edge.1));', [['C03', 'ENC-b'], ['C12', 'ENC-push']])
m('remove_last_match', U + 'node/adjacent.rs', 'for (idx, edge) in self.inbound.iter().enumerate() {', 'for (idx, edge) in self.inbound.iter().enumerate().rev() {', [['C02', 'RM1'], ['C03', 'RM1']])
m('isolate_skip_inbound_loop', D + 'node/mod.rs', '''        for Edge(v, _, _) in self.iter_in() {
            v.inner.2.borrow_mut().remove_outbound(self.key()).unwrap();
        }
''', '', [['C01', 'P3'], ['C03', 'P3']])
m('isolate_no_clear', SU + 'node/mod.rs', '        self.inner.2.write().unwrap().clear_inbound();\n', '', [['C02', 'P3']])
m('is_root_reads_out', D + 'node/mod.rs', 'self.inner.2.borrow().len_inbound() == 0', 'self.inner.2.borrow().len_outbound() == 0', [['C01', 'OBS'], ['C18', 'OBS']])
m('degree_out_only', U + 'node/mod.rs', 'self.inner.2.borrow().len_outbound() + self.inner.2.borrow().len_inbound()', 'self.inner.2.borrow().len_outbound() + self.inner.2.borrow().len_outbound()', [['C02', 'OBS']])
m('get_adjacent_off_by_one', U + 'node/adjacent.rs', '.get(idx - self.outbound.len())', '.get(idx - self.outbound.len() + 1)', [['C02', 'GET-ADJ']])
m('try_connect_inverted', SD + 'node/mod.rs', '        if self.is_connected(other.key()) {\n            Err(Error::EdgeAlreadyExists)', '        if !self.is_connected(other.key()) {\n            Err(Error::EdgeAlreadyExists)', [['C03', 'T1']])
m('try_connect_checks_other', U + 'node/mod.rs', '        if self.is_connected(other.key()) {\n            Err(Error::EdgeAlreadyExists)', '        if other.find_adjacent(other.key()).is_some() {\n            Err(Error::EdgeAlreadyExists)', [['C03', 'T1']])
m('iter_in_orientation', D + 'node/mod.rs', 'Some(Edge(node, self.node.clone(), current.1.clone()))', 'Some(Edge(self.node.clone(), node, current.1.clone()))', [['C01', 'ORIENT'], ['C08', 'ORIENT']])
m('iter_position_skips', SD + 'node/mod.rs', '''            Some(current) => {
                self.position += 1;
                Some(Edge(
                    self.node.clone(),
                    current.0.upgrade().unwrap(),
                    current.1.clone(),
                ))''', '''            Some(current) => {
                self.position += 2;
                Some(Edge(
                    self.node.clone(),
                    current.0.upgrade().unwrap(),
                    current.1.clone(),
                ))''', [['C20', 'IT2'], ['C07', 'IT2']])
# ---- guards
m('isolate_holds_borrow_across_loop', D + 'node/mod.rs', '''        for Edge(_, v, _) in self.iter_out() {
            v.inner.2.borrow_mut().remove_inbound(self.key()).unwrap();
        }''', '''        let own = self.inner.2.borrow();
        for Edge(_, v, _) in self.iter_out() {
            v.inner.2.borrow_mut().remove_inbound(self.key()).unwrap();
        }
        drop(own);''', [['C20', 'G2'], ['C03', 'G3']])
# ---- kernels
m('bfs_lifo', D + 'node/algo/bfs.rs', '''                        queue.push_back(v);
                    }
                }
            }
        }
        false''', '''                        queue.push_front(v);
                    }
                }
            }
        }
        false''', [['C04', 'BFS1']], count=2)
m('bfs_mark_on_expand', SU + 'node/algo/bfs.rs', '''                    if !visited.contains(v.key()) {
                        visited.insert(v.key().clone());
                        result.push(edge);''', '''                    if !visited.contains(v.key()) {
                        visited.insert(node.key().clone());
                        result.push(edge);''', [['C04', 'DISC-vi']])
m('bfs_no_visited_test', U + 'node/algo/bfs.rs', '''                    let v = edge.target();
                    if !visited.contains(v.key()) {''', '''                    let v = edge.target();
                    if !visited.contains(node.key()) || true {''', [['C04', 'DISC']])
m('dfs_exec_after_visited', SD + 'node/algo/dfs.rs', '''                if self.method.exec(&edge) {
                    let v = edge.target().clone();
                    if !visited.contains(v.key()) {
                        visited.insert(v.key().clone());
                        result.push(edge);
                        if let Some(ref t) = self.target {
                            if v.key() == t {
                                return true;
                            }
                        }
                        queue.push(v.clone());
                        if self.recurse_outbound(result, visited, queue) {''', '''                if !visited.contains(edge.target().key()) && self.method.exec(&edge) {
                    let v = edge.target().clone();
                    if !visited.contains(v.key()) {
                        visited.insert(v.key().clone());
                        result.push(edge);
                        if let Some(ref t) = self.target {
                            if v.key() == t {
                                return true;
                            }
                        }
                        queue.push(v.clone());
                        if self.recurse_outbound(result, visited, queue) {''', [['C07', 'EXEC1']])
m('dfs_drop_found_propagation', U + 'node/algo/dfs.rs', '''                        if self.recurse_adjacent(result, visited, queue) {
                            return true;
                        }''', '''                        self.recurse_adjacent(result, visited, queue);''', [['C05', 'EXH']])
m('dfs_early_break', D + 'node/algo/dfs.rs', '''                        queue.push(v.clone());
                        match self.recurse_inbound_find(visited, queue) {
                            Some(t) => return Some(t),
                            None => continue,
                        }''', '''                        queue.push(v.clone());
                        match self.recurse_inbound_find(visited, queue) {
                            Some(t) => return Some(t),
                            None => break,
                        }''', [['C05', 'EXH']])
m('pfs_reverse_swapped', SD + 'node/algo/pfs.rs', '''                Priority::Max => {
                    let mut queue = BinaryHeap::new();
                    queue.push(self.root.clone());
                    match self.loop_outbound_max(&mut edges, &mut visited, &mut queue) {
                        true => Some(Path::from_edge_tree(edges)),
                        false => None,
                    }
                }
            },
            Transposition::Inbound => match self.priority {
                Priority::Min => {
                    let mut queue = BinaryHeap::new();
                    queue.push(Reverse(self.root.clone()));
                    match self.loop_inbound_min(&mut edges, &mut visited, &mut queue) {
                        true => Some(Path::from_edge_tree(edges)),
                        false => None,
                    }
                }
                Priority::Max => {''', '''                Priority::Max => {
                    let mut queue = BinaryHeap::new();
                    queue.push(self.root.clone());
                    match self.loop_outbound_max(&mut edges, &mut visited, &mut queue) {
                        true => Some(Path::from_edge_tree(edges)),
                        false => None,
                    }
                }
            },
            Transposition::Inbound => match self.priority {
                Priority::Max => {
                    let mut queue = BinaryHeap::new();
                    queue.push(Reverse(self.root.clone()));
                    match self.loop_inbound_min(&mut edges, &mut visited, &mut queue) {
                        true => Some(Path::from_edge_tree(edges)),
                        false => None,
                    }
                }
                Priority::Min => {''', [['C09', 'PFS1']], count=2)
m('node_cmp_by_key', U + 'node/mod.rs', '''    fn cmp(&self, other: &Self) -> std::cmp::Ordering {
        self.value().cmp(other.value())
    }''', '''    fn cmp(&self, other: &Self) -> std::cmp::Ordering {
        other.value().cmp(self.value())
    }''', [['C06', 'ORD-NODE']])
m('method_filter_negated', SU + 'node/algo/method.rs', 'Method::Filter(f) => f(e),', 'Method::Filter(f) => !f(e),', [['C07', 'METHOD'], ['C04', 'METHOD']])
m('method_foreach_twice', D + 'node/algo/method.rs', '''                f(e);
                true''', '''                f(e);
                f(e);
                true''', [['C07', 'METHOD']])
m('edge_reverse_noop', SD + 'node/mod.rs', 'Edge(self.1.clone(), self.0.clone(), self.2.clone())', 'Edge(self.0.clone(), self.1.clone(), self.2.clone())', [['C08', 'REV'], ['C07', 'REV']])
m('bfs_transpose_arms_swapped', D + 'node/algo/bfs.rs', '''            Transposition::Outbound => self.loop_outbound_find(&mut visited, &mut queue),
            Transposition::Inbound => self.loop_inbound_find(&mut visited, &mut queue),''', '''            Transposition::Outbound => self.loop_inbound_find(&mut visited, &mut queue),
            Transposition::Inbound => self.loop_outbound_find(&mut visited, &mut queue),''', [['C08', 'TR1'], ['C04', 'TR1']])
m('dfs_new_defaults_inbound', SD + 'node/algo/dfs.rs', '''            method: Method::Empty,
            transpose: Transposition::Outbound,''', '''            method: Method::Empty,
            transpose: Transposition::Inbound,''', [['C08', 'TR2']])
m('cycle_marks_root', U + 'node/algo/dfs.rs', '''        self.target = Some(self.root.key().clone());
        queue.push(self.root.clone());
''', '''        self.target = Some(self.root.key().clone());
        queue.push(self.root.clone());
        visited.insert(self.root.key().clone());
''', [['C09', 'CYC-INIT']])
m('search_path_root_unmarked', D + 'node/algo/bfs.rs', '''        queue.push_back(self.root.clone());
        visited.insert(self.root.key().clone());

        match self.transpose {
            Transposition::Outbound => {
                match self.loop_outbound(&mut edges, &mut visited, &mut queue) {''', '''        queue.push_back(self.root.clone());

        match self.transpose {
            Transposition::Outbound => {
                match self.loop_outbound(&mut edges, &mut visited, &mut queue) {''', [['C04', 'INIT']])
m('bt_join_on_source', SU + 'node/algo/path.rs', '''        let Edge(_, v, _) = edge;
        let Edge(s, _, _) = &path[i];''', '''        let Edge(v, _, _) = edge;
        let Edge(s, _, _) = &path[i];''', [['C04', 'BT-join'], ['C09', 'BT-join']])
m('bt_no_reverse', D + 'node/algo/path.rs', '    path.reverse();\n', '', [['C05', 'BT-rev']])
m('order_post_pushes_root_first', U + 'node/algo/order.rs', '''                self.recurse_postorder(&mut edges, &mut visited, &mut queue);
                let mut coll = edges.iter().map(|Edge(_, v, _)| v.clone()).collect();
                nodes.append(&mut coll);
                nodes.push(self.root.clone());''', '''                self.recurse_postorder(&mut edges, &mut visited, &mut queue);
                nodes.push(self.root.clone());
                let mut coll = edges.iter().map(|Edge(_, v, _)| v.clone()).collect();
                nodes.append(&mut coll);''', [['C10', 'ORD2']])
m('order_nodes_take_source', SD + 'node/algo/order.rs', '''                Ordering::Pre => {
                    self.preorder_forward(&mut edges, &mut visited, &mut queue);
                    nodes.push(self.root.clone());
                    let mut coll = edges.iter().map(|Edge(_, v, _)| v.clone()).collect();''', '''                Ordering::Pre => {
                    self.preorder_forward(&mut edges, &mut visited, &mut queue);
                    nodes.push(self.root.clone());
                    let mut coll = edges.iter().map(|Edge(v, _, _)| v.clone()).collect();''', [['C10', 'ORD2']])
# ---- scc
m('scc_first_pass_transposed', D + 'mod.rs', '''                    .postorder()
                    .filter(&mut |Edge(_, v, _)| !visited.contains(v.key()))''', '''                    .postorder()
                    .transpose()
                    .filter(&mut |Edge(_, v, _)| !visited.contains(v.key()))''', [['C11', 'SCC1']])
m('scc_second_pass_not_transposed', SD + 'mod.rs', '''                    .preorder()
                    .transpose()
                    .filter(&mut |Edge(_, v, _)| !invariant.contains(v.key()))''', '''                    .preorder()
                    .filter(&mut |Edge(_, v, _)| !invariant.contains(v.key()))''', [['C11', 'SCC2']])
m('scc_filter_positive', D + 'mod.rs', '.filter(&mut |Edge(_, v, _)| !invariant.contains(v.key()))', '.filter(&mut |Edge(_, v, _)| invariant.contains(v.key()))', [['C11', 'SCC2']])
# ---- serde
m('ser_edge_swapped', D + 'graph_serde.rs', 'edges.push((u.key().clone(), v.key().clone(), e));', 'edges.push((v.key().clone(), u.key().clone(), e));', [['C12', 'SER3']])
m('de_unwrap_lookup', SU + 'graph_serde.rs', '''                    let vn = g.get(&v).ok_or_else(|| {
                        de::Error::custom(format!(
                            "Can't connect {} => {} because {} doesn't exist!",
                            u, v, v
                        ))
                    })?;''', '''                    let vn = g.get(&v).unwrap();''', [['C13', 'DE']])
m('de_connect_reversed', U + 'graph_serde.rs', 'Node::connect(&un, &vn, e);', 'Node::connect(&vn, &un, e);', [['C12', 'SER3']])
m('ser_elements_swapped', SD + 'graph_serde.rs', '''        tuple.serialize_element(&nodes)?;
        tuple.serialize_element(&edges)?;''', '''        tuple.serialize_element(&edges)?;
        tuple.serialize_element(&nodes)?;''', [['C12', 'SER1']])
# ---- containers
m('graph_insert_overwrites', D + 'mod.rs', '''        if self.nodes.contains_key(node.key()) {
            false
        } else {
            self.nodes.insert(node.key().clone(), node.clone());
            true
        }''', '''        self.nodes.insert(node.key().clone(), node.clone()).is_none()''', [['C18', 'MAP'], ['C13', 'MAP']])
m('leaves_uses_is_root', SD + 'mod.rs', '.filter(|node| node.is_leaf())', '.filter(|node| node.is_root())', [['C18', 'VIEW']])
m('dot_edge_args_swapped', U + 'mod.rs', 'write!(&mut s, "\\n    {} -> {}", u_key, v.key()).unwrap();', 'write!(&mut s, "\\n    {} -> {}", v.key(), u_key).unwrap();', [['C18', 'DOT']])
# ---- ownership
m('adjacent_holds_strong', SU + 'node/adjacent.rs', None, None, [['C19', 'OWN1']])
# ---- sync
m('sync_isolate_nested_lock', SD + 'node/mod.rs', '''        self.inner.2.write().unwrap().clear_outbound();
        self.inner.2.write().unwrap().clear_inbound();''', '''        let mut own = self.inner.2.write().unwrap();
        own.clear_outbound();
        drop(own);
        let guard = self.inner.2.read().unwrap();
        let _n = self.in_degree() + guard.len_outbound();
        drop(guard);
        self.inner.2.write().unwrap().clear_inbound();''', [['C17', 'LK1']])
m('send_bound_weakened', SD + 'node/mod.rs', '''    K: Clone + Hash + Display + PartialEq + Eq + Send + Sync,
    N: Clone + Send + Sync,
    E: Clone + Send + Sync,
{
}

unsafe impl<K, N, E> Sync for Node<K, N, E>''', '''    K: Clone + Hash + Display + PartialEq + Eq + Send + Sync,
    N: Clone + Send,
    E: Clone + Send + Sync,
{
}

unsafe impl<K, N, E> Sync for Node<K, N, E>''', [['C16', 'W16-neg']])
m('macro_edges_reversed', 'src/ungraph/graph_macros.rs', '''			for (s, t, param) in edges {
				if !g.contains(&s) || !g.contains(&t) {
					if !g.contains(&s) {
						panic!("Check your macro invocation: \\"{}\\" is not in the graph", s);
					} else {
						panic!("Check your macro invocation: \\"{}\\" is not in the graph", t);
					}
				}
				let s = g.get(&s).unwrap();
				let t = g.get(&t).unwrap();
				ungraph_connect!(&s => &t, param);
			}
			g
		}
	};

	// Graph<K, N, E>''', '''			for (s, t, param) in edges.into_iter().rev() {
				if !g.contains(&s) || !g.contains(&t) {
					if !g.contains(&s) {
						panic!("Check your macro invocation: \\"{}\\" is not in the graph", s);
					} else {
						panic!("Check your macro invocation: \\"{}\\" is not in the graph", t);
					}
				}
				let s = g.get(&s).unwrap();
				let t = g.get(&t).unwrap();
				ungraph_connect!(&s => &t, param);
			}
			g
		}
	};

	// Graph<K, N, E>''', [['C14', 'MAC-den']])
m('macro_panic_names_wrong_key', 'src/digraph/graph_macros.rs', '''	( ($K:ty) $(($NODE:expr) => $( [ $( $EDGE:expr),*] )? )* )
	=> {
		{
			use gdsl::digraph::*;
			use gdsl::*;

			let mut edges = Vec::<($K, $K)>::new();
			edges.clear();
			let mut g = Graph::<$K, (), ()>::new();
			$(
				$(
					$(
						edges.push(($NODE, $EDGE));
					)*
				)?
				let n = digraph_node!($NODE);
				g.insert(n);
			)*
			for (s, t) in edges {
				if !g.contains(&s) || !g.contains(&t) {
					if !g.contains(&s) {
						panic!("Check your macro invocation, \\"{}\\" is not in the graph", s);''', '''	( ($K:ty) $(($NODE:expr) => $( [ $( $EDGE:expr),*] )? )* )
	=> {
		{
			use gdsl::digraph::*;
			use gdsl::*;

			let mut edges = Vec::<($K, $K)>::new();
			edges.clear();
			let mut g = Graph::<$K, (), ()>::new();
			$(
				$(
					$(
						edges.push(($NODE, $EDGE));
					)*
				)?
				let n = digraph_node!($NODE);
				g.insert(n);
			)*
			for (s, t) in edges {
				if !g.contains(&s) || !g.contains(&t) {
					if !g.contains(&s) {
						panic!("Check your macro invocation, \\"{}\\" is not in the graph", t);''', [['C14', 'MAC-den']])
m('sync_only_change_pop_back', SU + 'node/algo/bfs.rs', '''        while let Some(node) = queue.pop_front() {
            for edge in node.iter() {
                if self.method.exec(&edge) {
                    let v = edge.target().clone();''', '''        while let Some(node) = queue.pop_back() {
            for edge in node.iter() {
                if self.method.exec(&edge) {
                    let v = edge.target().clone();''', [['C15', 'SIB'], ['C04', 'BFS1']])

m('path_nodes_start_at_first_target', D + 'node/algo/path.rs', """                    self.position += 1;
                    return Some(edge.0.clone());""", """                    self.position += 1;
                    return Some(edge.1.clone());""", [['C04', 'PATH'], ['C09', 'PATH']])
m('path_last_node_source', SU + 'node/algo/path.rs', """        self.edges.last().map(|e| &e.1)""", """        self.edges.last().map(|e| &e.0)""", [['C06', 'PATH']])
m('adjacent_get_shifted', D + 'node/adjacent.rs', """        self.inbound.get(idx).map(|edge| (&edge.0, &edge.1))""", """        self.inbound.get(idx + 1).map(|edge| (&edge.0, &edge.1))""", [['C01', 'ADJ-PRIM'], ['C03', 'ADJ-PRIM']])
m('adjacent_find_value_of_first', U + 'node/adjacent.rs', """    pub fn find_inbound(&self, node: &K) -> Option<(&WeakNode<K, N, E>, &E)> {
        for edge in self.inbound.iter() {
            if edge.0.upgrade().unwrap().key() == node {
                return Some((&edge.0, &edge.1));""", """    pub fn find_inbound(&self, node: &K) -> Option<(&WeakNode<K, N, E>, &E)> {
        for edge in self.inbound.iter() {
            if edge.0.upgrade().unwrap().key() == node {
                return Some((&edge.0, &self.inbound[0].1));""", [['C02', 'ADJ-PRIM']])

# ---- benign edits: behaviour-preserving, every check must stay silent
B = []


def b(name, file, old, new, count=1):
    B.append((name, file, old, new, count))


b('benign_insert_as_test', D + 'node/algo/bfs.rs', """                    let v = edge.1.clone();
                    if !visited.contains(v.key()) {
                        visited.insert(v.key().clone());
                        result.push(edge);
                        if let Some(ref t) = self.target {
                            if v.key() == t {
                                return true;
                            }
                        }
                        queue.push_back(v);
                    }
                }
            }
        }
        false
    }

    fn loop_inbound(""", """                    let v = edge.1.clone();
                    if visited.insert(v.key().clone()) {
                        result.push(edge);
                        if let Some(ref t) = self.target {
                            if v.key() == t {
                                return true;
                            }
                        }
                        queue.push_back(v);
                    }
                }
            }
        }
        false
    }

    fn loop_inbound(""")
b('benign_logging_one_sided', SD + 'node/algo/dfs.rs', """        if let Some(node) = queue.pop() {
            for edge in node.iter_out() {
                if self.method.exec(&edge) {
                    let v = edge.target().clone();""", """        if let Some(node) = queue.pop() {
            if cfg!(debug_assertions) && std::env::var_os("GDSL_TRACE").is_some() {
                eprintln!("dfs: expanding {}", node.key());
            }
            for edge in node.iter_out() {
                if self.method.exec(&edge) {
                    let v = edge.target().clone();""")
b('benign_new_query_method', U + 'node/mod.rs', """    pub fn is_connected(&self, other: &K) -> bool {""", """    /// Returns true if the node has at least one incident edge.
    pub fn has_edges(&self) -> bool {
        !self.is_orphan()
    }

    pub fn is_connected(&self, other: &K) -> bool {""")
b('benign_connect_reordered', D + 'node/mod.rs', """        self.inner
            .2
            .borrow_mut()
            .push_outbound((other.clone(), value.clone()));
        other
            .inner
            .2
            .borrow_mut()
            .push_inbound((self.clone(), value));""", """        other
            .inner
            .2
            .borrow_mut()
            .push_inbound((self.clone(), value.clone()));
        self.inner
            .2
            .borrow_mut()
            .push_outbound((other.clone(), value));""")
b('benign_loop_match', U + 'node/algo/bfs.rs', """        while let Some(node) = queue.pop_front() {
            for edge in node.iter() {
                if self.method.exec(&edge) {
                    let v = edge.target().clone();""", """        loop {
            let node = match queue.pop_front() {
                Some(node) => node,
                None => break,
            };
            for edge in node.iter() {
                if self.method.exec(&edge) {
                    let v = edge.target().clone();""")
b('benign_try_connect_branches', SU + 'node/mod.rs', """        if self.is_connected(other.key()) {
            Err(Error::EdgeAlreadyExists)
        } else {
            self.connect(other, value);
            Ok(())
        }""", """        if !self.is_connected(other.key()) {
            self.connect(other, value);
            Ok(())
        } else {
            Err(Error::EdgeAlreadyExists)
        }""")
b('benign_rename_locals', D + 'node/algo/dfs.rs', """        if let Some(node) = queue.pop() {
            for edge in node.iter_out() {
                if self.method.exec(&edge) {
                    let v = edge.target().clone();
                    if !visited.contains(v.key()) {
                        visited.insert(v.key().clone());
                        result.push(edge);
                        if let Some(ref t) = self.target {
                            if v.key() == t {
                                return true;
                            }
                        }
                        queue.push(v.clone());
                        if self.recurse_outbound(result, visited, queue) {""", """        // take the node we are about to expand
        if let Some(current) = queue.pop() {
            for out_edge in current.iter_out() {
                if self.method.exec(&out_edge) {
                    let next = out_edge.target().clone();
                    if !visited.contains(next.key()) {
                        visited.insert(next.key().clone());
                        result.push(out_edge);
                        if let Some(ref wanted) = self.target {
                            if next.key() == wanted {
                                return true;
                            }
                        }
                        queue.push(next.clone());
                        if self.recurse_outbound(result, visited, queue) {""")
b('benign_is_orphan_by_degree', D + 'node/mod.rs', """        self.is_root() && self.is_leaf()""", """        self.in_degree() + self.out_degree() == 0""")
b('benign_position_rewrite', SD + 'node/adjacent.rs', """        for (idx, edge) in self.inbound.iter().enumerate() {
            if edge.0.upgrade().unwrap().key() == source {
                return Ok(self.inbound.remove(idx).1);
            }
        }
        Err(Error::EdgeNotFound)""", """        let idx = self
            .inbound
            .iter()
            .position(|edge| edge.0.upgrade().unwrap().key() == source)
            .ok_or(Error::EdgeNotFound)?;
        Ok(self.inbound.remove(idx).1)""")
b('benign_extract_kernel_helper', D + 'node/algo/bfs.rs', """    fn loop_outbound(
        &mut self,
        result: &mut Vec<Edge<K, N, E>>,
        visited: &mut HashSet<K>,
        queue: &mut VecDeque<Node<K, N, E>>,
    ) -> bool {
        while let Some(node) = queue.pop_front() {
            for edge in node.iter_out() {
                if self.method.exec(&edge) {
                    let v = edge.1.clone();
                    if !visited.contains(v.key()) {
                        visited.insert(v.key().clone());
                        result.push(edge);
                        if let Some(ref t) = self.target {
                            if v.key() == t {
                                return true;
                            }
                        }
                        queue.push_back(v);
                    }
                }
            }
        }
        false
    }
""", """    /// Handles one accepted edge: marks and records a newly discovered node.
    /// Returns true when the target has been found.
    fn discover(
        &mut self,
        edge: Edge<K, N, E>,
        result: &mut Vec<Edge<K, N, E>>,
        visited: &mut HashSet<K>,
        queue: &mut VecDeque<Node<K, N, E>>,
    ) -> bool {
        let v = edge.1.clone();
        if !visited.contains(v.key()) {
            visited.insert(v.key().clone());
            result.push(edge);
            if let Some(ref t) = self.target {
                if v.key() == t {
                    return true;
                }
            }
            queue.push_back(v);
        }
        false
    }

    fn loop_outbound(
        &mut self,
        result: &mut Vec<Edge<K, N, E>>,
        visited: &mut HashSet<K>,
        queue: &mut VecDeque<Node<K, N, E>>,
    ) -> bool {
        while let Some(node) = queue.pop_front() {
            for edge in node.iter_out() {
                if self.method.exec(&edge) && self.discover(edge, result, visited, queue) {
                    return true;
                }
            }
        }
        false
    }
""")
b('benign_extract_target_test', SU + 'node/algo/dfs.rs', """    fn recurse_adjacent(
        &mut self,
        result: &mut Vec<Edge<K, N, E>>,
        visited: &mut HashSet<K>,
        queue: &mut Vec<Node<K, N, E>>,
    ) -> bool {
        if let Some(node) = queue.pop() {
            for edge in node.iter() {
                if self.method.exec(&edge) {
                    let v = edge.target().clone();
                    if !visited.contains(v.key()) {
                        visited.insert(v.key().clone());
                        result.push(edge);
                        if let Some(ref t) = self.target {
                            if v.key() == t {
                                return true;
                            }
                        }""", """    fn is_target(&self, v: &Node<K, N, E>) -> bool {
        match self.target {
            Some(ref t) => v.key() == t,
            None => false,
        }
    }

    fn recurse_adjacent(
        &mut self,
        result: &mut Vec<Edge<K, N, E>>,
        visited: &mut HashSet<K>,
        queue: &mut Vec<Node<K, N, E>>,
    ) -> bool {
        if let Some(node) = queue.pop() {
            for edge in node.iter() {
                if self.method.exec(&edge) {
                    let v = edge.target().clone();
                    if !visited.contains(v.key()) {
                        visited.insert(v.key().clone());
                        result.push(edge);
                        if self.is_target(&v) {
                            return true;
                        }""")
b('benign_extract_disconnect_helper', SD + 'node/mod.rs', """    pub fn disconnect(&self, other: &K) -> Result<E, Error> {
        match self.find_outbound(other) {
            Some(other) => {
                // The lock on `self` must be released before `other` is
                // locked: `other` may be `self` (self-loop), and two threads
                // may disconnect in opposite directions.
                let removed = self.inner.2.write().unwrap().remove_outbound(other.key());
                match removed {
                    Ok(edge) => {
                        other.inner.2.write().unwrap().remove_inbound(self.key())?;
                        Ok(edge)
                    }
                    Err(_) => Err(Error::EdgeNotFound),
                }
            }
            None => Err(Error::EdgeNotFound),
        }
    }
""", """    pub fn disconnect(&self, other: &K) -> Result<E, Error> {
        match self.find_outbound(other) {
            Some(other) => self.remove_pair(&other),
            None => Err(Error::EdgeNotFound),
        }
    }

    /// Removes the first edge `self -> other` from both endpoints.
    fn remove_pair(&self, other: &Self) -> Result<E, Error> {
        // The lock on `self` must be released before `other` is locked:
        // `other` may be `self` (self-loop).
        let removed = self.inner.2.write().unwrap().remove_outbound(other.key());
        match removed {
            Ok(edge) => {
                other.inner.2.write().unwrap().remove_inbound(self.key())?;
                Ok(edge)
            }
            Err(_) => Err(Error::EdgeNotFound),
        }
    }
""")
b('benign_scc_reversed_iteration', D + 'mod.rs', """        while let Some(node) = ordering.pop() {
            if !invariant.contains(node.key()) {""", """        ordering.reverse();
        for node in ordering {
            if !invariant.contains(node.key()) {""")
b('benign_graph_get_match', SD + 'mod.rs', """        self.nodes.get(key).cloned()""", """        match self.nodes.get(key) {
            Some(node) => Some(node.clone()),
            None => None,
        }""")


def main():
    os.makedirs(MUT, exist_ok=True)
    index = {}
    # keep existing revert_* entries
    old = {}
    if os.path.exists(os.path.join(MUT, 'index.json')):
        old = json.load(open(os.path.join(MUT, 'index.json')))
    for k, v in old.items():
        if k.startswith('revert_') or v.get('external'):
            index[k] = v
    bad = 0
    for name, file, o, n, expect, count in T:
        path = os.path.join(REPO, file)
        src = open(path).read()
        if o is None:
            # special: Adjacent holds strong nodes
            o = '    inbound: Vec<(WeakNode<K, N, E>, E)>,\n}'
            n = '    inbound: Vec<(WeakNode<K, N, E>, E)>,\n    pinned: Vec<Node<K, N, E>>,\n}'
            src2 = src.replace(o, n, 1)
            o2 = '            inbound: Vec::new(),\n        })'
            n2 = '            inbound: Vec::new(),\n            pinned: Vec::new(),\n        })'
            if src.count(o) != 1 or src2.count(o2) != 1:
                print('ANCHOR', name)
                bad += 1
                continue
            src2 = src2.replace(o2, n2, 1)
        else:
            if src.count(o) != count:
                print('ANCHOR', name, 'matches', src.count(o))
                bad += 1
                continue
            src2 = src.replace(o, n, 1)
        diff = ''.join(difflib.unified_diff(src.splitlines(True), src2.splitlines(True), 'a/' + file, 'b/' + file))
        open(os.path.join(MUT, name + '.diff'), 'w').write(diff)
        index[name] = {'expect': expect, 'kind': 'anchored edit'}
    for name, file, o, n, count in B:
        path = os.path.join(REPO, file)
        src = open(path).read()
        if src.count(o) != count:
            print('ANCHOR', name, 'matches', src.count(o))
            bad += 1
            continue
        src2 = src.replace(o, n, 1)
        diff = ''.join(difflib.unified_diff(src.splitlines(True), src2.splitlines(True), 'a/' + file, 'b/' + file))
        open(os.path.join(MUT, name + '.diff'), 'w').write(diff)
        index[name] = {'expect': [], 'benign': True, 'kind': 'behaviour-preserving edit: every check must stay silent'}
    json.dump(index, open(os.path.join(MUT, 'index.json'), 'w'), indent=1, sort_keys=True)
    print('%d mutants written, %d anchors failed' % (len(index), bad))


main()
