#!/usr/bin/env python3
"""mcfacts.py <out.json> <file> <line> <new text>: facts of /repo with one source line replaced (scratch copy, removed afterwards)"""
import os, sys, subprocess, tempfile, shutil
HERE = os.path.dirname(os.path.abspath(__file__))
out, rel, line, new = os.path.abspath(sys.argv[1]), sys.argv[2], int(sys.argv[3]), sys.argv[4]
d = tempfile.mkdtemp(prefix='gdslmcf-')
try:
    subprocess.run(['rsync', '-a', '--exclude', 'target', '--exclude', '.git', '/repo/', d + '/repo/'], check=True)
    p = os.path.join(d, 'repo', rel)
    ls = open(p).read().split('\n')
    ind = ls[line - 1][:len(ls[line - 1]) - len(ls[line - 1].lstrip())]
    ls[line - 1] = ind + new
    open(p, 'w').write('\n'.join(ls))
    env = dict(os.environ, GDSL_WORK=os.path.join(d, 'work'))
    os.makedirs(env['GDSL_WORK'])
    r = subprocess.run([os.path.join(HERE, 'facts.sh'), os.path.join(d, 'repo'), out], env=env, stdout=subprocess.PIPE, stderr=subprocess.STDOUT, text=True)
    print('ok' if os.path.exists(out) else r.stdout[-400:])
finally:
    shutil.rmtree(d, ignore_errors=True)
