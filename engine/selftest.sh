#!/bin/bash
# Full self-test of the checker: silent on /repo, every mutant killed / benign edit silent, every kept seeded change caught.
cd "$(dirname "$0")/.."
fail=0
for p in $(python3 -c "import json;print(' '.join(json.loads(l)['id'] for l in open('properties.jsonl')))"); do
  out=$(./check $p --no-evidence 2>&1 | tail -1); echo "$out"
  echo "$out" | grep -q " 0 violations" || fail=1
done
mo=$(python3 engine/mutants.py --jobs ${JOBS:-12}); echo "$mo" | grep -v "^killed\|^silent" || true
echo "$mo" | grep -q "^SURVIVED\|anchor-missing\|does-not-compile" && fail=1
# every kept seeded change (confirmed once by engine/seedeval.py) must still be reported by the check of its own property
so=$(python3 engine/mutants.py --seeds --jobs ${JOBS:-12}); echo "$so" | grep -v "^killed" || true
echo "$so" | grep -q "^SURVIVED\|anchor-missing\|does-not-compile" && fail=1
[ $fail = 0 ] && echo "SELFTEST OK" || echo "SELFTEST FAILED"
exit $fail
